#!/bin/sh
# runall.sh [quick|thorough] : every check of the tier, one after the other, against /repo; summary at the end
tier=${1:-quick}
cd "$(dirname "$0")/.."
mkdir -p cache/logs
fail=0
for id in C01 C02 C03 C04 C05 C06 C07 C08 C09 C10 C11 C12 C13 C14 C15 C16 C17 C18 C19 C20; do
  python3 tools/check.py $id --tier $tier > cache/logs/$id.$tier.log 2>&1
  rc=$?
  echo "$id rc=$rc $(tail -1 cache/logs/$id.$tier.log | cut -c1-200)"
  [ $rc -ne 0 ] && fail=1
done
exit $fail
