#!/usr/bin/env python3
"""Opening book checks (C19, C20): games from the ChessGame generator, rendering in the three book
formats (syntactic, from the specification's SAN components), expected book by the sequential fold."""
import json
import os
import shutil
import subprocess

import fenspec
import vlib

PIECE = " K NBRQ"


def san_text(c, suffix=""):
    if c["castle"] == 1:
        return "O-O" + suffix
    if c["castle"] == 2:
        return "O-O-O" + suffix
    s = ""
    if c["pt"] != 2:
        s += PIECE[c["pt"]]
    if c["ff"] >= 0:
        s += "abcdefgh"[c["ff"]]
    if c["fr"] >= 0:
        s += "12345678"[c["fr"]]
    if c["cap"]:
        s += "x"
    s += fenspec.sq_name(c["to"])
    if c["promo"]:
        s += "=" + " NBRQ"[c["promo"]]
    return s + suffix


def ident(o):
    return (tuple(o["board"]), o["stm"], "".join(c for c in "KQkq" if c in o["cr"]), o["ep"])


def ident_fen(idn):
    return fenspec.state_to_fen({"board": list(idn[0]), "stm": idn[1], "cr": list(idn[2]), "ep": idn[3], "hmc": 0, "fmn": 1})


def load_games(art, maxdepth):
    """Returns (nodes by path, list of games as paths - maximal paths, duplicates kept)."""
    nodes, games = {}, []
    for line in vlib.tlc_lines(art):
        o = vlib.obs_json(line)
        p = tuple(o["path"])
        if p not in nodes:
            nodes[p] = o
        if len(p) == maxdepth or (not o["legal"] and p):
            games.append(p)
    return nodes, games


def move_san(nodes, path, k):
    """SAN text of move number k (0-based) of the game `path`."""
    par = nodes[tuple(path[:k])]
    child = nodes[tuple(path[:k + 1])]
    comp = [e["san"] for e in par["san"] if e["m"] == path[k]][0]
    suffix = ""
    if child["inCheck"]:
        suffix = "#" if not child["legal"] else "+"
    return san_text(comp, suffix)


def render_simple(path):
    return "".join(fenspec.mv_uci(m)[:4] for m in path)


def render_san(nodes, path, result="1/2-1/2"):
    out = []
    for k in range(len(path)):
        if k % 2 == 0:
            out.append("%d." % (k // 2 + 1))
        out.append(move_san(nodes, path, k))
    return " ".join(out) + " " + result


def render_pgn(nodes, path, rng, gid, style="A"):
    res = rng.choice(["1-0", "0-1", "1/2-1/2", "*"])
    # tag values are free text: escaped quotes, brackets and result-like text are legal inside them
    event = rng.choice(['verif %d', 'The \\"Big\\" Open %d', 'match 1-0 decided %d', 'Open [A] %d']) % gid
    site = rng.choice(['?', 'Lon[d]on', 'Sp\\"a'])
    tags = ['[Event "%s"]' % event, '[Site "%s"]' % site, '[Date "2026.10.01"]', '[Round "%d"]' % (gid % 7 + 1),
            '[White "Spec, T."]', '[Black "Engine; F."]' if style == "B" else '[Black "Engine, F."]', '[Result "%s"]' % res]
    toks = []
    for k in range(len(path)):
        if k % 2 == 0:
            toks.append(rng.choice(["%d.", "%d. "]) % (k // 2 + 1))
        elif rng.random() < 0.15:
            toks.append("%d..." % (k // 2 + 1))
        toks.append(move_san(nodes, path, k))
        r = rng.random()
        if r < 0.10:
            toks.append("$%d" % rng.randint(1, 140))
        elif r < 0.20:
            toks.append("{%s}" % rng.choice(["good move", "book", "a plan: Nf3 and e4", "[%clk 0:05:00]", "comment with (parens)",
                                             "book; eval +0.35", "white is better 1-0 soon", "see 12. Qd2 Nf6", "two\nlines",
                                             "st\u00e4rker w\u00e4re \u265e", "\u00f1and\u00fa \u2013 \u00e6\u00e6\u00e6",
                                             "the game Spec - Engine ended 1-0\nafter 40 moves", "unclear *\n"]))
        elif r < 0.26 and k + 1 < len(path):
            alt = move_san(nodes, path, k)          # a variation that repeats the move (content is irrelevant: it must be dropped)
            toks.append("(%s %s (%s $2) )" % ("%d%s" % (k // 2 + 1, "." if k % 2 == 0 else "..."), alt, alt))
        elif r < 0.30:
            toks.append("<reserved>")
        if style == "B" and r > 0.93:
            toks.append("{a semicolon; inside a comment}")
    lines, cur = [], ""
    for t in toks:
        if len(cur) + len(t) > 70:
            # a rest-of-line comment may end any line of the move text (outside braces), after ASCII or other text
            if cur.count("{") == cur.count("}") and all(l_.count("{") == l_.count("}") for l_ in lines) and rng.random() < 0.15:
                cur = cur.rstrip() + rng.choice([" ; rest of line", " ;Nf3 e4 1-0", " ; \u00fcber \u265e {", ";"]) + " "
            lines.append(cur.strip())
            cur = ""
        cur += t + " "
        if "{" in t and rng.random() < 0.3:
            cur += "\n"                               # brace comments may span lines
    lines.append((cur + res).strip())
    body = "\n".join(lines)
    extra = rng.choice(["% escaped line\n", "% escaped line, result 0-1\n"]) if rng.random() < 0.2 else ""
    trailer = " ; rest of line comment" if rng.random() < 0.2 else ""
    return "\n".join(tags) + trailer + "\n\n" + extra + body + "\n"


def expected_book(nodes, games):
    """Sequential fold: identity -> visit count; edges played: (parent identity, move) -> child identity."""
    count, edges = {}, {}
    root = ident(nodes[()])
    count[root] = 0
    for g in games:
        count[root] += 1
        for k in range(1, len(g) + 1):
            idn = ident(nodes[tuple(g[:k])])
            count[idn] = count.get(idn, 0) + 1
            edges[(ident(nodes[tuple(g[:k - 1])]), g[k - 1])] = idn
    return count, edges


def keys_of(idents):
    run = vlib.scratch("keys")
    try:
        inp = os.path.join(run, "fens.txt")
        with open(inp, "w") as fh:
            for i in idents:
                fh.write(ident_fen(i) + "\n")
        outp = os.path.join(run, "keys.json")
        vlib.run_driver(["fen-keys", "-in", inp, "-out", outp], cwd=run, load=False)
        ks = json.load(open(outp))
        return dict(zip(idents, ks))
    finally:
        shutil.rmtree(run, ignore_errors=True)


def book_run(text, fmt, cache=False, rounds=1, maxprocs=0, race=False, schedule=None, timeout=120, keep_dir=None, prefile=None, reuse=False,
             damage_before_last=None):
    """Builds a book from `text`; returns (dump or None, rc, stderr tail, race log)."""
    run = keep_dir or vlib.scratch("book")
    try:
        src = os.path.join(run, "book.txt")
        if text is not None:
            with open(src, "w", encoding="utf-8") as fh:
                fh.write(text)
        if prefile is not None:
            with open(src + ".cache", "wb") as fh:
                fh.write(prefile)
        outp = os.path.join(run, "dump.json")
        if os.path.exists(outp):
            os.remove(outp)
        args = [vlib.driver(race=race), "book-run", "-file", src, "-format", fmt, "-rounds", str(rounds), "-out", outp]
        if cache:
            args.append("-cache")
        if reuse:
            args.append("-reuse")
        if damage_before_last is not None:
            with open(os.path.join(run, "damaged.bin"), "wb") as fh:
                fh.write(damage_before_last)
            args += ["-damage-before-last", os.path.join(run, "damaged.bin")]
        if maxprocs:
            args += ["-maxprocs", str(maxprocs)]
        if schedule is not None:
            sf = os.path.join(run, "sched.json")
            json.dump(schedule, open(sf, "w"))
            args += ["-schedule", sf]
        env = dict(os.environ)
        racelog = os.path.join(run, "race")
        if race:
            env["GORACE"] = "log_path=%s halt_on_error=0 exitcode=0" % racelog
        try:
            p = subprocess.run(args, cwd=run, stdout=subprocess.DEVNULL, stderr=subprocess.PIPE, timeout=timeout, env=env)
            rc, err = p.returncode, p.stderr.decode(errors="replace")[-1500:]
        except subprocess.TimeoutExpired:
            rc, err = -9, "timeout: the build did not terminate within %ds" % timeout
        dump = json.load(open(outp)) if os.path.exists(outp) else None
        races = ""
        import glob
        for f in glob.glob(racelog + ".*"):
            races += open(f, errors="replace").read()
        return dump, rc, err, races
    finally:
        if not keep_dir:
            shutil.rmtree(run, ignore_errors=True)


def book_summary(dump):
    """positions -> counter (schedule independent part) and links."""
    entries = dump.get("entries") or []          # an empty book is dumped as null
    pos = {e["key"]: e["counter"] for e in entries}
    links = {(e["key"], m["m"]): m["next"] for e in entries for m in e["moves"]}
    return pos, links
