#!/bin/sh
# seedcheck.sh <seed-dir-or-patch> <property> [tier] : runs one check against a scratch worktree of /repo's HEAD with the seeded
# change applied (VERIF_REPO), then removes the worktree. Prints the last lines of the check and "rc=<exit code>".
# Evidence of such runs goes to cache/evidence-<hash>, never to /verif/evidence.
export GOFLAGS=-mod=mod GOPROXY=off GOSUMDB=off GOTOOLCHAIN=local
here=$(cd "$(dirname "$0")/.." && pwd)
patch=$1; [ -d "$patch" ] && patch=$patch/patch.diff
patch=$(cd "$(dirname "$patch")" && pwd)/$(basename "$patch")
prop=$2; tier=${3:-quick}
wt=/tmp/wt/run-$$-$prop
mkdir -p /tmp/wt
# a change that a later fix neutralised is kept with the commit it was written for (meta.json "base_commit")
base=HEAD
[ -f "$(dirname $patch)/meta.json" ] && b=$(python3 -c "import json;print(json.load(open('$(dirname $patch)/meta.json')).get('base_commit',''))" 2>/dev/null) && [ -n "$b" ] && base=$b
git -C /repo worktree add -q --detach $wt $base || exit 2
if ! git -C $wt apply $patch; then echo "PATCH DOES NOT APPLY"; git -C /repo worktree remove --force $wt; exit 2; fi
(cd $here && VERIF_REPO=$wt python3 tools/check.py $prop --tier $tier 2>&1 | tail -${SEEDCHECK_LINES:-4} | cut -c1-500)
rc=$?
h=$(python3 -c "import hashlib,os,sys;print(hashlib.sha256(os.path.realpath('$wt').encode()).hexdigest()[:10])")
rcfile=$here/cache/evidence-$h/$prop.json
viol=$(python3 -c "import json;print(json.load(open('$rcfile'))['violations'])" 2>/dev/null)
echo "violations=$viol"
rm -rf $here/cache/evidence-$h $here/cache/bin/verifdrv-$h $here/cache/bin/verifdrv-race-$h $here/cache/overlay-$h.json
git -C /repo worktree remove --force $wt
