#!/usr/bin/env python3
"""Search-related checks (C05, C06, C07, C13): job generation from TLC artefacts, parallel driver
runs, validation of the recorded results by TLC (SearchCheck.tla)."""
import json
import os
import random
import shutil
import subprocess
import time

import vlib
from vlib import Inconclusive, SEED
import fenspec

SOUND = ["UsePVS", "UseKiller", "UseHistoryCounter", "UseCounterMoves", "UseIID", "UseMDP", "UseTT"]
UNSOUND = ["UseRazoring", "UseRFP", "UseNullMove", "UseExt", "UseFP", "UseQFP", "UseLmp", "UseLmr", "UseQSStandpat", "UseSEE"]
PRUNING = ["UseFP", "UseLmp", "UseLmr", "UseNullMove", "UseRazoring", "UseRFP", "UseQFP"]
ALLSW = ["UseQuiescence", "UseQSStandpat", "UseSEE", "UsePromNonQuiet", "UsePVS", "UseIID", "UseKiller", "UseHistoryCounter",
         "UseCounterMoves", "UseTT", "UseTTMove", "UseTTValue", "UseQSTT", "UseEvalTT", "UseMDP", "UseRazoring", "UseRFP",
         "UseNullMove", "UseExt", "UseExtAddDepth", "UseCheckExt", "UseThreatExt", "UseFP", "UseQFP", "UseLmp", "UseLmr"]


def load_nodes(art, want=lambda o: True, limit=None):
    """Observation records of a chess artefact as dicts (pos/root/path/kinds + a few flags)."""
    roots = [json.loads(l) for l in open(os.path.join(art, "roots.ndjson"))]
    out = []
    for line in vlib.tlc_lines(art):
        o = vlib.obs_json(line)
        if not want(o):
            continue
        pos = {k: o[k] for k in ("board", "stm", "cr", "ep", "hmc", "fmn")}
        pos["cr"] = [c for c in "KQkq" if c in o["cr"]]
        out.append({"pos": pos, "root": roots[o["root"] - 1], "path": o["path"], "kinds": o["kinds"],
                    "legal": o["legal"], "inCheck": o["inCheck"], "rep": o["rep"], "rootidx": o["root"]})
        if limit and len(out) >= limit:
            break
    return out


def job(node, jid, mode, tag, **kw):
    j = {"id": jid, "pos": node["pos"], "root": node["root"], "path": node["path"], "kinds": node["kinds"],
         "mode": mode, "depth": 0, "nodes": 0, "movetime": 0, "time": 0, "inc": 0, "movestogo": 0, "stopafter": 0,
         "cfg": {}, "iiddepth": 0, "prefill": "", "searchmoves": [], "tag": tag}
    j.update(kw)
    return j


def run_jobs(jobs, procs=8, watchdog=20000, timeout=3600):
    """Runs the jobs in `procs` driver processes; returns the records (restarting after hangs)."""
    run = vlib.scratch("search")
    drv = vlib.driver()
    try:
        parts = [jobs[i::procs] for i in range(procs)]
        procs_l = []
        for k, part in enumerate(parts):
            jf = os.path.join(run, "jobs%d.ndjson" % k)
            with open(jf, "w") as fh:
                for j in part:
                    fh.write(json.dumps(j, separators=(",", ":")) + "\n")
            procs_l.append({"k": k, "jf": jf, "rf": os.path.join(run, "rec%d.ndjson" % k), "n": len(part), "skip": 0, "p": None})
        t0 = time.time()

        crashes = [0]

        def start(pr):
            pr["ef"] = os.path.join(run, "err%d.txt" % pr["k"])
            pr["p"] = subprocess.Popen([drv, "search-record", "-jobs", pr["jf"], "-rec", pr["rf"], "-skip", str(pr["skip"]),
                                        "-watchdog", str(watchdog)], cwd=run, stdout=subprocess.DEVNULL, stderr=open(pr["ef"], "w"))
        for pr in procs_l:
            if pr["n"]:
                start(pr)
        pending = [pr for pr in procs_l if pr["n"]]
        while pending:
            time.sleep(0.2)
            if time.time() - t0 > timeout:
                for pr in pending:
                    pr["p"].kill()
                raise Inconclusive("search jobs timed out")
            for pr in list(pending):
                rc = pr["p"].poll()
                if rc is None:
                    continue
                done = sum(1 for _ in open(pr["rf"])) if os.path.exists(pr["rf"]) else 0
                if rc == 0 or done >= pr["n"]:
                    pending.remove(pr)
                elif rc == 3 and done > pr["skip"]:      # hung search recorded: continue after it
                    pr["skip"] = done
                    start(pr)
                else:
                    # the process died while it ran job number `done` of its list. A panic on the search goroutine cannot be
                    # recovered by the driver: when the dying goroutine was inside the engine, that IS the observation (the
                    # search brought the engine down) - recorded for that job, and the rest of the list goes on
                    err = open(pr["ef"], errors="replace").read() if os.path.exists(pr["ef"]) else ""
                    # (the report of the dying goroutine comes first; a deep recursion makes it long - look from the panic line on)
                    at = max(err.rfind("\npanic: "), err.rfind("\nfatal error: "), err.find("panic: ") if err.startswith("panic: ") else -1)
                    err = err[at + 1:] if at >= 0 else err[-6000:]
                    first = err.split("goroutine ", 2)[1] if "goroutine " in err else ""
                    crashes[0] += 1
                    if done >= pr["n"] or "/internal/" not in first:
                        raise Inconclusive("search driver died (rc=%s) after %d of %d jobs: %s" % (rc, done, pr["n"], err[-400:]))
                    job = [json.loads(l) for l in open(pr["jf"])][done]
                    what = (err.split("\n\ngoroutine")[0].strip().splitlines() or ["?"])[0][:300]
                    frames = [l.strip() for l in first.splitlines() if "/internal/" in l][:4]
                    rec = {"id": job["id"], "tag": job.get("tag", ""), "mode": job.get("mode", ""), "best": -1, "ponder": -1, "fen": "",
                           "error": "CRASH: the search brought the process down: %s @ %s" % (what, " | ".join(frames)), "cfg": "",
                           "infos": [], "pv": [], "results": 0, "terminal": [], "value": 0, "depth": 0, "nodes": 0}
                    with open(pr["rf"], "a") as fh:
                        fh.write(json.dumps(rec) + "\n")
                    pr["skip"] = done + 1
                    if pr["skip"] >= pr["n"] or crashes[0] > 40:      # (after 40 crashes the rest of this list is not run: the verdict is in)
                        pending.remove(pr)
                    else:
                        start(pr)
        recs = []
        for pr in procs_l:
            if os.path.exists(pr["rf"]):
                recs += [json.loads(l) for l in open(pr["rf"])]
        return recs
    finally:
        shutil.rmtree(run, ignore_errors=True)


def tlc_check(items, chunks=64, workers=16, timeout=3600):
    """Evaluates SearchCheck.tla on the items; returns {id: verdict}."""
    if not items:
        return {}, None
    cfg = 'INIT Init\nNEXT Next\nCONSTANTS\n  ItemsFile = "items.ndjson"\n  Chunks = %d\nINVARIANT Out\nCHECK_DEADLOCK FALSE\n' % chunks
    txt = "".join(json.dumps(i, separators=(",", ":")) + "\n" for i in items)
    art = vlib.tlc("SearchCheck", cfg, files={"items.ndjson": txt}, workers=workers, tag="searchcheck", cache=False, timeout=timeout)
    res = {}
    for line in vlib.tlc_lines(art, '<<"CHK"'):
        v = json.loads(json.loads(line.rstrip()[len('<<"CHK", '):-2]))
        res[v["id"]] = v
    st = vlib.art_stats(art)
    shutil.rmtree(art, ignore_errors=True)
    if len(res) != len(items):
        raise Inconclusive("SearchCheck returned %d verdicts for %d items" % (len(res), len(items)))
    return res, st


def fen_of(pos):
    return fenspec.state_to_fen(pos)


def cfg_all(value, names=ALLSW):
    return {n: value for n in names}
