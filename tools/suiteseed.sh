#!/bin/sh
# suiteseed.sh <worktree> <pkg>... : runs the existing tests of the given packages in a seeded worktree (demo test excluded by name)
# and lists failing tests that are not among the six that fail on the unchanged tree
export GOFLAGS=-mod=mod GOPROXY=off GOSUMDB=off GOTOOLCHAIN=local
wt=$1; shift; cd $wt || exit 2
for p in "$@"; do
  go test -vet=off -count=1 -timeout 25m -json ./internal/$p/ 2>&1 | python3 -c "
import json,sys
base={'TestMoveArrayPushBack','TestProcessingPGNCacheLarge','TestProcessingPGNLarge','TestProcessingSimple','TestReadingFile','TestBookMove','TestZZSeededDemo'}
bad=set(); n=0
for l in sys.stdin:
    try: e=json.loads(l)
    except ValueError: continue
    if e.get('Test') and e.get('Action') in ('pass','fail'):
        n+=1
        if e['Action']=='fail' and e['Test'].split('/')[0] not in base: bad.add(e['Test'])
print('$p: %d test results, unexpected failures: %s' % (n, sorted(bad) or 'none'))
"
done
