#!/usr/bin/env python3
"""Writes /verif/MANIFEST.json from the table below (kept here so that it stays consistent)."""
import json, os, subprocess

V = "/verif"
props = [json.loads(l) for l in open(V + "/properties.jsonl")]

# id -> (category, level text, level note, technique, design ref)
BUILT = {
 "C01": ("model_checking", "ChessRules.tla defines Legal(pos) from coordinates; TLC enumerates every node of the game trees of 142 corner-case roots (and random walks) and the engine's legal move list is compared as a multiset at every node, on FEN-built and path-built positions, with fresh and reused generators; perft totals and counters are compared with TLC's per-level counts.",
         "Trusted: ChessRules.tla (validated against published perft numbers and by its own invariants), the syntactic FEN/move conversion of the driver. Bounded: roots x depth 2 (quick) / 3 (thorough) + walks.", "TLA+ spec of the rules + TLC tree enumeration + replay into the engine", "5 C01"),
 "C02": ("model_checking", "Apply(pos, m) of ChessRules.tla is the expected successor; every edge of the TLC trees and walks is executed with DoMove and compared field by field (FEN, 64 squares, rights, ep, clock, side, last move, captured piece).",
         "Same trusted base as C01. Walks reach 120 (quick) / 300 (thorough) plies.", "TLA+ spec + TLC enumeration + replay", "5 C02"),
 "C03": ("model_checking", "ChessGame.tla with Move/Undo/NullMove/UndoNull actions; TLC explores all properly nested behaviours to a bound (and simulates longer ones); each is replayed on one long-lived engine position which is compared with the spec after every step and with its own snapshot of every observable after each undo.",
         "Bounded nesting/length; snapshot covers the accessors listed in the property.", "TLA+ state machine + TLC BFS/simulation + replay", "5 C03"),
 "C04": ("model_checking", "At every node of the TLC trees and walks the incrementally maintained state is compared with a fresh position from the engine's own FEN and with sums of the published per-piece values; keys are grouped by the spec's position identity: equal inside a group, different across groups.",
         "64-bit collisions excluded by assumption (would be reported with both FENs).", "TLA+ spec (position identity, transpositions in the TLC tree) + replay", "5 C04"),
 "C05": ("model_checking", "A reported PV is a trace of ChessGame.tla: every best move, ponder move and PV line reported by real searches (8 limit modes, every feature switch flipped, a deterministic sweep of the stop moment through node limits 1..n, pre-filled hash tables, drawn roots) is validated by TLC against Legal/Apply (SearchCheck.tla); termination is watched by a watchdog, the caller's position is snapshotted.",
         "Positions are a seeded sample of TLC walk nodes with their game histories; searches are shallow (depth 3-4).", "trace validation of search output against the TLA+ rules", "5 C05"),
 "C06": ("model_checking", "SearchValue.tla defines the minimax value over ChessRules with the engine's terminal scores; the game tree and scoring rules come from the specification, the leaf numbers from the engine's evaluator, and TLC computes the expected value and the set of moves attaining it for every (root, depth). The engine searches each pair under combinations of the seven sound switches (unsound ones off) and must return exactly that value with an attaining move; with quiescence on the value must agree across the combinations.",
         "Roots with empty history and clock <= 90; depth <= 2 for all roots, 3 (4 thorough) for sparse roots.", "TLA+ minimax specification evaluated by TLC + comparison with real searches", "5 C06"),
 "C07": ("model_checking", "A verif hook reports every node the search or quiescence search classifies as mate or stalemate; the de-duplicated positions are validated by TLC (Legal(pos) = {} and mate <=> InCheck) for searches under the default configuration and combinations of the seven pruning switches; roots without legal moves must be reported as -mate / draw.",
         "Hook H1 (build tag verif) in alphabeta.go; depth-4 (quick) / depth-5 (thorough) searches.", "hook events validated against the TLA+ rules by TLC", "5 C07"),
 "C08": ("model_checking", "PseudoLegal / NonQuiet / Quiet of ChessRules.tla (both settings of the promotion switch) are the expected sets; batch and phased generation are compared as multisets at every tree node under PV/killer orderings, generator reuse, evasion mode and has-legal-move.",
         "Ordering states are a seeded subset (one PV per move class).", "TLA+ spec + TLC enumeration + replay", "5 C08"),
 "C09": ("model_checking", "Attackers / InCheck / GivesCheck / Legal of ChessRules.tla, with the two en-passant conventions as named deviations, compared with HasCheck, GivesCheck, AttacksTo, IsAttacked (64 squares x 2 colours), IsLegalMove and WasLegalMove at every node.",
         "Attacker sets at depth-1 (quick) / depth-2 (thorough) tree nodes.", "TLA+ spec + TLC enumeration + replay", "5 C09"),
 "C10": ("model_checking", "RepCount over the spec's history and the half-move clock are compared with CheckRepetitions(1..3) and HalfMoveClock after every ply of shuffling walks; Material.tla enumerates all 7,056 material pairs x side to move with a three-valued expectation for the insufficient-material query.",
         "Histories without null moves; 'free' material classes are not constrained.", "TLA+ spec + TLC simulation/enumeration + replay", "5 C10"),
 "C11": ("model_checking", "TT.tla models slots, collisions, replacement, ageing, clear and resize; TLC checks LookupIntact/CountExact/EvictionRule exhaustively on the bounded model, generates operation chains that are stepped through a real table with the whole projection compared after each operation, and validates histories recorded from the real table (TTTrace.tla).",
         "Key 0 excluded; ageing < 100 in a row.", "TLA+ model + TLC exhaustive check + replay + trace validation", "5 C11"),
 "C12": ("model_checking", "UciSession.tla specifies the wire protocol (one bestmove per go, never before the stop of an infinite/ponder search, readyok per isready, nothing left unanswered) and is model-checked for all sessions of bounded length; real UciHandler.Loop sessions (seeded protocol-valid sessions with every go mode, go immediately after bestmove, isready during search) run in child processes and their exchanged lines are validated against the specification; position commands are built from TLC walk nodes and the handler's position is compared with the FEN the specification expects; ucinewgame is compared with a fresh engine; every option is checked against OptionField of the specification through the engine's configuration print-out.",
         "Hook H2 (position accessor). Stop promptness allowance 500 ms. The interleavings inside the engine are covered by C14.", "TLA+ protocol specification: TLC model check + trace validation of real sessions", "5 C12"),
 "C13": ("model_checking", "TimeControl.tla models the clock as a game (remaining' = remaining - budget + increment); TLC enumerates the parameter grid, the driver plays every game with the engine's real budget function (hook wrapper) and TLC validates the recorded games step by step (budget <= remaining, clock never negative). Depth, node, move-time and searchmoves clauses are measured on real searches, the searchmoves/terminal-root expectations come from SearchCheck.tla.",
         "Wall-clock clauses use allowances (250 ms, 300 nodes) and re-measure before reporting.", "TLA+ clock game: TLC grid generation + trace validation; measured searches", "5 C13"),
 "C14": ("model_checking", "SearchLifecycle.tla models controller, search and timer goroutines at statement granularity (semaphores, stop flag, time limit, shared limits); TLC checks NoCtrlStuck / OneResultEach / OwnStopOnly / NoResultBeforeStop over all interleavings of 3 searches and 5-6 calls. Real controller scripts (the model's counterexamples for the unrepaired code, and seeded random scripts with delays injected at the hooks) run with a watchdog on every call; every recorded run is validated against the model (SearchLifecycleTrace.tla, per-goroutine event order) and repeated under the Go race detector.",
         "Hook events H4 (build tag verif). Races are decided by the race detector on the driven schedules only.", "TLA+ concurrency model: TLC exhaustive check + trace validation of hook events + race detector", "5 C14"),
 "C15": ("model_checking", "Mirror(pos) of ChessRules.tla (TLC checks that it commutes with Apply and Legal) supplies the mirrored positions; at every node Evaluate is compared across FEN-built / path-built / mirrored position and fresh / reused evaluator, under the four combinations of the UCI evaluation options; insufficient positions must evaluate to 0.",
         "Evaluation numerics themselves are not specified, only the relations.", "TLA+ spec (Mirror, histories) + replay", "5 C15"),
 "C16": ("model_checking", "FenInput.tla generates the structured family of FEN-like strings (token sequences that overflow ranks by digit / piece, wrong rank counts, every field replaced by bad values, truncations), the driver adds seeded byte-level mutants; for ANY string the set-up must fail with an error or give a position that round-trips through its own FEN and answers queries, under recover and a watchdog; every node FEN of the TLC trees must round-trip exactly. For the protocol handler a catalogue of malformed lines is inserted into valid sessions (idle and while searching) in child processes: the engine must survive, still answer isready, keep its position, and the session must remain a behaviour of UciSession.tla with the malformed line as a no-op.",
         "The string families are bounded (MaxTok 4 quick / 6 thorough, 5k / 500k mutants); 'all strings' is approached, not exhausted.", "TLA+ input generator + total oracle; trace validation of sessions with malformed lines", "5 C16"),
 "C17": ("model_checking", "SanOf / SanMatches of ChessRules.tla (TLC invariant SanUnique) give the SAN components and the set of moves a SAN text denotes; every legal move of every tree node is rendered in UCI and five SAN decorations and parsed back; hint-stripped and illegal texts must give the unique match or no move.",
         "Encoding: all 65,536 tuples x boundary values, full value range on a sample of tuples.", "TLA+ spec + TLC enumeration + replay", "5 C17"),
 "C18": ("model_checking", "Geometry.tla enumerates every entry of every lookup table (sliding attacks for every occupancy of the line squares, rays, between, masks, distances, shifts) from coordinate definitions; each entry is compared with the engine's table, sliders with extra off-line occupancy.",
         "Finite domain covered completely (quick: magic-table occupancies, thorough: full lines).", "TLA+ definitions + TLC exhaustive enumeration + comparison", "5 C18"),
 "C19": ("model_checking", "BookBuild.tla models the per-game goroutines adding moves under the book mutex and is checked for all interleavings (positions and visit counts equal the sequential fold; links sound, unique, one parent). Games are behaviours of ChessGame.tla from the start position, rendered as Simple/SAN/PGN from the specification's SAN components; the real book is compared by key with the sequential fold, every offered move with the played legal edges; illegal tokens mid-line; GOMAXPROCS variants; race detector; TLC-enumerated interleavings of three real games are forced through the addToBook gate and the resulting links compared with the model.",
         "Hook H5 (gate + 'added' event). PGN decorations of class A (what the repository's sample files contain); cross-format equality with Simple on promotion-free games.", "TLA+ model of the parallel build + TLC enumeration + gated replay + content comparison", "5 C19"),
 "C20": ("fault_enumeration", "BookCache.tla (file states x repeated initialisation, NoHang / ResultIsSourceBook / Terminates) is model-checked; on the real code EVERY prefix length of a written cache file, seeded bit flips, garbage and a missing file are enumerated: a child process initialises the book twice in a row under a watchdog and must end with the book built from the source file; save -> load round trip.",
         "Quick: a 3-game book (about 1.9 k prefixes); thorough adds a 500-game book.", "TLA+ model + exhaustive crash-point enumeration on the real code", "5 C20"),
}

checks = []
for p in props:
    i = p["id"]
    if i not in BUILT:
        continue
    cat, text, note, tech, ref = BUILT[i]
    checks.append({"property_id": i, "quick_cmd": "python3 tools/check.py %s --tier quick" % i,
                   "thorough_cmd": "python3 tools/check.py %s --tier thorough" % i,
                   "evidence_file": "/verif/evidence/%s.json" % i,
                   "replay_cmd_template": "python3 tools/check.py %s --replay {path}" % i,
                   "engine": "tlc+verifdrv",
                   "level_claimed": {"category": cat, "text": text, "design_ref": "DESIGN.md section " + ref},
                   "level_note": note, "technique": tech})
hooks = subprocess.run(["git", "-C", "/repo", "log", "--format=%h %s", "--grep=^verif hook"], capture_output=True, text=True).stdout.split("\n")
m = {"version": 1,
     "setup_cmd": "python3 tools/check.py setup",
     "hooks": {"guard": "verif", "enable": "go build -tags verif -overlay cache/overlay.json (tools/overlay.py; the driver sources in harness/verifdrv are overlaid onto /repo/cmd/verifdrv)",
               "baseline_off_cmd": "cd /repo && GOFLAGS=-mod=mod go test -vet=off -count=1 -timeout 25m ./...",
               "source_commits": [h.split()[0] for h in hooks if h.strip()], "add_only": True},
     "engines": [{"name": "tlc+verifdrv", "path": "/verif/tools/check.py", "serves_properties": [c["property_id"] for c in checks],
                  "kind_free_text": "TLA+ specifications in /verif/spec checked by TLC; Go conformance driver harness/verifdrv compiled inside the engine module; python orchestrator"}],
     "checks": checks,
     "not_applicable": [{"property_id": p["id"], "reason": "check not built yet (build in progress, see DESIGN.md section 10)"} for p in props if p["id"] not in BUILT],
     "notes": "exit 0 = held (KNOWN-FINDING lines allowed), 1 = violation, 2 = inconclusive (tool failure; never a verdict). known_findings.json lists open and fixed findings."}
json.dump(m, open(V + "/MANIFEST.json", "w"), indent=1)
print(len(checks), "checks")
