#!/bin/sh
# seedsweep.sh [tier] : every archived seeded change against the check of its property (and nothing else); one line per change.
# A change that is not reported (violations=0 or missing) is listed as MISSED.
cd "$(dirname "$0")/.."
tier=${1:-quick}
for d in seeded/*/; do
  id=$(basename $d)
  prop=$(python3 -c "import json;print(json.load(open('$d/meta.json'))['property'].split()[0])")
  out=$(SEEDCHECK_LINES=1 tools/seedcheck.sh $d $prop $tier 2>&1 | tail -2 | tr '\n' ' ' | cut -c1-200)
  case "$out" in *violations=0*|*violations=\ *|*INCONCLUSIVE*|*"DOES NOT APPLY"*) echo "MISSED $id :: $out";; *) echo "caught $id :: $out";; esac
done
