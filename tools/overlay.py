#!/usr/bin/env python3
"""Builds the conformance driver inside the engine's module with `go build -overlay`.

Nothing is written into /repo: the driver sources stay in /verif/harness and are mapped onto
virtual paths /repo/cmd/verifdrv/*.go; the binary goes to /verif/cache/bin.
"""
import json, os, subprocess, sys, glob

VERIF = os.environ.get("VERIF_ROOT") or os.path.dirname(os.path.dirname(os.path.abspath(__file__)))
REPO = os.environ.get("VERIF_REPO", "/repo")
CACHE = os.path.join(VERIF, "cache")
# checks pointed at another tree (VERIF_REPO, used for seeded changes) keep their own binaries, overlay file and
# evidence directory, so that they can run at the same time as checks of /repo and never overwrite its evidence
import hashlib
ALT = "" if os.path.realpath(REPO) == "/repo" else "-" + hashlib.sha256(os.path.realpath(REPO).encode()).hexdigest()[:10]

GOENV = dict(os.environ, GOFLAGS="-mod=mod", GOPROXY="off", GOSUMDB="off", GOTOOLCHAIN="local")


def build(race=False, tags="verif"):
    os.makedirs(os.path.join(CACHE, "bin"), exist_ok=True)
    repl = {}
    for f in glob.glob(os.path.join(VERIF, "harness", "verifdrv", "*.go")):
        repl[os.path.join(REPO, "cmd", "verifdrv", os.path.basename(f))] = f
    ov = os.path.join(CACHE, "overlay%s.json" % ALT)
    with open(ov, "w") as fh:
        json.dump({"Replace": repl}, fh, indent=1)
    out = os.path.join(CACHE, "bin", ("verifdrv-race" if race else "verifdrv") + ALT)
    cmd = ["go", "build", "-tags", tags, "-overlay", ov, "-o", out]
    if race:
        cmd.append("-race")
    cmd.append("./cmd/verifdrv")
    p = subprocess.run(cmd, cwd=REPO, env=GOENV, stdout=subprocess.PIPE, stderr=subprocess.STDOUT, text=True)
    if p.returncode != 0:
        sys.stderr.write(p.stdout)
        raise SystemExit("driver build failed (exit 2: not a verdict)")
    return out


if __name__ == "__main__":
    print(build(race="--race" in sys.argv))
