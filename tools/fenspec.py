#!/usr/bin/env python3
"""FEN <-> specification-state conversion (syntactic only; no chess rules here).

Spec state: {"board":[64 piece codes, a1 first], "stm":0|1, "cr":[...], "ep":-1|sq, "hmc":n, "fmn":n}
Piece codes: 1..6 = K P N B R Q (White), +8 Black.
"""
import json, sys

PCHARS = {'K': 1, 'P': 2, 'N': 3, 'B': 4, 'R': 5, 'Q': 6,
          'k': 9, 'p': 10, 'n': 11, 'b': 12, 'r': 13, 'q': 14}
CHARS = {v: k for k, v in PCHARS.items()}


def sq_name(s):
    return "-" if s < 0 else "abcdefgh"[s % 8] + str(s // 8 + 1)


def sq_of(name):
    return -1 if name == "-" else (ord(name[0]) - 97) + 8 * (int(name[1]) - 1)


def fen_to_state(fen):
    parts = fen.split()
    board = [0] * 64
    rows = parts[0].split('/')
    assert len(rows) == 8, fen
    for i, row in enumerate(rows):
        r = 7 - i
        f = 0
        for ch in row:
            if ch.isdigit():
                f += int(ch)
            else:
                board[8 * r + f] = PCHARS[ch]
                f += 1
        assert f == 8, fen
    stm = 0 if parts[1] == 'w' else 1
    cr = [] if parts[2] == '-' else [c for c in "KQkq" if c in parts[2]]
    ep = sq_of(parts[3])
    return {"board": board, "stm": stm, "cr": cr, "ep": ep,
            "hmc": int(parts[4]), "fmn": int(parts[5])}


def state_to_fen(st):
    rows = []
    for r in range(7, -1, -1):
        row = ""
        e = 0
        for f in range(8):
            pc = st["board"][8 * r + f]
            if pc == 0:
                e += 1
            else:
                if e:
                    row += str(e)
                    e = 0
                row += CHARS[pc]
        if e:
            row += str(e)
        rows.append(row)
    cr = "".join(c for c in "KQkq" if c in st["cr"]) or "-"
    return "%s %s %s %s %d %d" % ("/".join(rows), "wb"[st["stm"]], cr,
                                  sq_name(st["ep"]), st["hmc"], st["fmn"])


def mv_uci(m):
    f, t, p = m % 64, (m // 64) % 64, m // 4096
    return sq_name(f) + sq_name(t) + ["", "n", "b", "r", "q"][p]


def uci_mv(u):
    p = {"": 0, "n": 1, "b": 2, "r": 3, "q": 4}[u[4:].lower()]
    return sq_of(u[0:2]) + 64 * sq_of(u[2:4]) + 4096 * p


if __name__ == "__main__":
    # fenspec.py roots.fen > roots.ndjson
    for line in open(sys.argv[1]):
        line = line.split('#')[0].strip()
        if line:
            print(json.dumps(fen_to_state(line), separators=(',', ':')))
