#!/usr/bin/env python3
"""Runs the repository's own test suite (build tag off) and compares with the pinned baseline:
every test of BASELINE.json's stable_pass list must pass. Usage: reposuite.py [repo-dir]"""
import json
import os
import subprocess
import sys

repo = sys.argv[1] if len(sys.argv) > 1 else "/repo"
base = json.load(open("/root/.vp/BASELINE.json"))
env = dict(os.environ, GOFLAGS="-mod=mod", GOPROXY="off", GOSUMDB="off", GOTOOLCHAIN="local")
p = subprocess.run(["go", "test", "-json", "-vet=off", "-count=1", "-timeout", "25m", "./..."], cwd=repo, env=env,
                   stdout=subprocess.PIPE, stderr=subprocess.STDOUT)
st = {}
for l in p.stdout.decode(errors="replace").splitlines():
    try:
        o = json.loads(l)
    except ValueError:
        continue
    if o.get("Test") and o.get("Action") in ("pass", "fail", "skip"):
        st["%s::%s" % (o["Package"], o["Test"])] = o["Action"]
want = base["stable_pass"]
bad = [t for t in want if st.get(t) != "pass"]
print("baseline tests: %d, passing now: %d" % (len(want), len(want) - len(bad)))
for t in bad:
    print("NOT PASSING:", t, st.get(t))
extra_fail = [t for t, a in st.items() if a == "fail" and t not in want]
print("failing tests outside the baseline list (expected: the always-failing ones):", sorted(extra_fail))
sys.exit(1 if bad else 0)
