#!/usr/bin/env python3
"""Shared machinery of the /verif orchestrator: TLC runs with artefact caching, driver runs,
known-finding classification, evidence files, verdict lines and exit codes.

Exit codes: 0 held on everything explored (KNOWN-FINDING lines allowed), 1 violation (with
VIOLATION lines), 2 inconclusive (tool failure / timeout) - never a verdict.
"""
import glob
import gzip
import hashlib
import json
import os
import random
import re
import shutil
import subprocess
import sys
import tempfile
import time

sys.path.insert(0, os.path.dirname(os.path.abspath(__file__)))
import overlay  # noqa: E402

VERIF = overlay.VERIF
REPO = overlay.REPO
CACHE = overlay.CACHE
SPEC = os.path.join(VERIF, "spec")
EVID = os.environ.get("VERIF_EVIDENCE") or (os.path.join(VERIF, "evidence") if not overlay.ALT else os.path.join(CACHE, "evidence" + overlay.ALT))
TLA_CP = "/opt/veriftools/tla/tla2tools.jar:/opt/veriftools/tla/CommunityModules-deps.jar"

SEED = int(os.environ.get("VERIF_SEED", "1") or "1")


class Inconclusive(Exception):
    pass


def log(*a):
    print(*a, file=sys.stderr, flush=True)


def scratch(prefix="vf"):
    base = os.path.join(CACHE, "tmp")
    os.makedirs(base, exist_ok=True)
    return tempfile.mkdtemp(prefix=prefix + "-", dir=base)


def sha(*parts):
    h = hashlib.sha256()
    for p in parts:
        if isinstance(p, str):
            p = p.encode()
        h.update(p)
        h.update(b"\0")
    return h.hexdigest()[:20]


def spec_text(modules):
    """Concatenated text of the given spec modules and everything they EXTEND (for cache keys)."""
    seen, out, todo = set(), [], list(modules)
    while todo:
        m = todo.pop()
        if m in seen:
            continue
        seen.add(m)
        p = os.path.join(SPEC, m + ".tla")
        if not os.path.exists(p):
            continue
        t = open(p).read()
        out.append(t)
        for line in t.splitlines():
            mm = re.match(r"\s*EXTENDS\s+(.*)", line)
            if mm:
                todo += [x.strip() for x in mm.group(1).split(",")]
    return "\n".join(sorted(out))


# ------------------------------------------------------------------------------------------ TLC

def tlc(module, cfg_text, files=None, args=(), workers=8, heap="8g", timeout=3600, tag="tlc",
        cache=True, key_extra="", keep_out=True, expect_ok=True, env_opts=(), post=None, pre_dirs=(), _retry=False):
    """Runs TLC on spec/<module>.tla with the given cfg text. `files` maps file names (created in
    the run directory) to their content. Returns the artefact directory, which contains
    out.txt.gz (full TLC output) and stats.json. Artefacts depend only on /verif, never on /repo,
    and are cached under cache/art/<key>."""
    files = files or {}
    key = sha(module, spec_text([module]), cfg_text, json.dumps(sorted(files.items())),
              " ".join(map(str, args)), key_extra)
    art = os.path.join(CACHE, "art", "%s-%s" % (tag, key))
    if cache and os.path.exists(os.path.join(art, "stats.json")):
        return art
    if not cache:
        # one-shot artefacts (trace validations) may run concurrently with identical inputs
        art += "-%d-%d" % (os.getpid(), random.getrandbits(40))
    run = scratch(tag)
    try:
        for f in glob.glob(os.path.join(SPEC, "*.tla")):
            shutil.copy(f, run)
        with open(os.path.join(run, "run.cfg"), "w") as fh:
            fh.write(cfg_text)
        for name, content in files.items():
            with open(os.path.join(run, name), "w") as fh:
                fh.write(content)
        for d in pre_dirs:
            os.makedirs(os.path.join(run, d), exist_ok=True)
        os.makedirs(os.path.join(run, "jtmp"), exist_ok=True)       # TLC's temporary directories stay inside the scratch directory
        cmd = ["java", "-XX:+UseG1GC", "-Xmx" + heap, "-Xss64m", "-Djava.io.tmpdir=" + os.path.join(run, "jtmp")] + list(env_opts) + [
            "-cp", TLA_CP, "tlc2.TLC", "-workers", str(workers), "-metadir", os.path.join(run, "meta"),
            "-config", "run.cfg"] + list(map(str, args)) + [module + ".tla"]
        t0 = time.time()
        outp = os.path.join(run, "out.txt")
        with open(outp, "w") as fh:
            try:
                p = subprocess.run(cmd, cwd=run, stdout=fh, stderr=subprocess.STDOUT, timeout=timeout)
                rc = p.returncode
            except subprocess.TimeoutExpired:
                # a small job that ran out of time on a stalled machine gets one more try with three times the time
                if timeout <= 900 and not _retry:
                    shutil.rmtree(run, ignore_errors=True)
                    return tlc(module, cfg_text, files=files, args=args, workers=workers, heap=heap, timeout=3 * timeout, tag=tag, cache=cache,
                               key_extra=key_extra, keep_out=keep_out, expect_ok=expect_ok, env_opts=env_opts, post=post, pre_dirs=pre_dirs,
                               _retry=True)
                raise Inconclusive("TLC timed out after %ds (%s)" % (timeout, tag))
        wall = time.time() - t0
        stats = {"module": module, "wall_s": round(wall, 1), "rc": rc, "args": list(map(str, args)),
                 "states_generated": 0, "distinct_states": 0, "obs": 0, "error": None}
        tail = []
        with open(outp, errors="replace") as fh:
            for line in fh:
                if line.startswith('<<"OBS"'):
                    stats["obs"] += 1
                    continue
                tail.append(line)
                if len(tail) > 400:
                    tail = tail[-200:]
                m = re.match(r"(\d+) states generated, (\d+) distinct states found", line)
                if m:
                    stats["states_generated"], stats["distinct_states"] = int(m.group(1)), int(m.group(2))
                m = re.search(r"The depth of the complete state graph search is (\d+)", line)
                if m:
                    stats["diameter"] = int(m.group(1))
                if line.startswith("Error:") and stats["error"] is None:
                    stats["error"] = line.strip()
        stats["tail"] = "".join(tail[-60:])
        if expect_ok and (stats["error"] or rc != 0):
            dbg = os.path.join(CACHE, "failed-" + tag + ".txt")
            shutil.copy(outp, dbg)
            raise Inconclusive("TLC run '%s' failed: %s (rc=%d); output kept in %s" % (tag, stats["error"], rc, dbg))
        os.makedirs(art, exist_ok=True)
        if keep_out:
            with open(outp, "rb") as src, gzip.open(os.path.join(art, "out.txt.gz"), "wb", compresslevel=3) as dst:
                shutil.copyfileobj(src, dst)
        for name in files:
            shutil.copy(os.path.join(run, name), os.path.join(art, name))
        if post:
            post(run, art)      # e.g. collects the behaviour files of a -simulate file=... run into the artefact
        with open(os.path.join(art, "run.cfg"), "w") as fh:
            fh.write(cfg_text)
        with open(os.path.join(art, "stats.json"), "w") as fh:
            json.dump(stats, fh, indent=1)
        return art
    finally:
        shutil.rmtree(run, ignore_errors=True)


def art_stats(art):
    return json.load(open(os.path.join(art, "stats.json")))


def art_out(art):
    return os.path.join(art, "out.txt.gz")


def tlc_lines(art, prefix='<<"OBS"'):
    with gzip.open(art_out(art), "rt", errors="replace") as fh:
        for line in fh:
            if line.startswith(prefix):
                yield line


def obs_json(line):
    """Decodes one <<"OBS", "..json..">> line."""
    line = line.rstrip("\r\n")
    inner = line[len('<<"OBS", '):-2]
    return json.loads(json.loads(inner))


# --------------------------------------------------------------------------------------- driver

_built = {}


def driver(race=False):
    if race not in _built:
        _built[race] = overlay.build(race=race)
    return _built[race]


def run_driver(args, timeout=1800, race=False, env=None, stdin=None, cwd=None, load=True):
    """Runs a driver sub-command that writes a result file given by '-out'. Returns the result."""
    out = None
    for i, a in enumerate(args):
        if a == "-out":
            out = args[i + 1]
    run = cwd or scratch("drv")
    try:
        e = dict(os.environ)
        if env:
            e.update(env)
        with open(os.path.join(run, "driver.log"), "w") as lf:
            try:
                p = subprocess.run([driver(race)] + list(map(str, args)), cwd=run, stdout=lf, stderr=subprocess.STDOUT,
                                   timeout=timeout, env=e, stdin=stdin)
            except subprocess.TimeoutExpired:
                raise Inconclusive("driver timed out: " + " ".join(map(str, args[:2])))
        if p.returncode != 0 or (out and not os.path.exists(out)):
            tail = open(os.path.join(run, "driver.log"), errors="replace").read()[-3000:]
            raise Inconclusive("driver failed (rc=%d): %s\n%s" % (p.returncode, " ".join(map(str, args[:3])), tail))
        return json.load(open(out)) if (out and load) else None
    finally:
        if not cwd:
            shutil.rmtree(run, ignore_errors=True)


# ------------------------------------------------------------------------------- known findings

def load_known():
    p = os.path.join(VERIF, "known_findings.json")
    if not os.path.exists(p):
        return []
    return json.load(open(p))["findings"]


def match_known(prop, disc, known):
    """A discrepancy matches an OPEN finding when property, kind prefix and signature regex match."""
    for k in known:
        if k.get("status") != "open" or k["property"] != prop:
            continue
        m = k["match"]
        if "kind" in m and not re.search(m["kind"], disc.get("kind", "")):
            continue
        if "sig" in m and not re.fullmatch(m["sig"], disc.get("sig", "")):
            continue
        return k
    return None


# --------------------------------------------------------------------------------------- verdict

class Check:
    """Collects what one property check did and turns it into evidence + verdict."""

    def __init__(self, prop, tier, level="model_checking"):
        self.prop, self.tier, self.level = prop, tier, level
        self.t0 = time.time()
        self.cov = {"evaluations": 0, "distinct_nontrivial": 0, "rule": "", "samples": [],
                    "states": 0, "transitions": 0, "traces_validated_against_impl": 0}
        self.assumptions = []
        self.discs = []          # discrepancies of this property (dicts as written by the driver)
        self.disc_count = {}
        self.notes = []
        self.known = load_known()

    def add_result(self, res):
        """Merges a driver result: keeps discrepancies of this property, counts of all of them."""
        for d in res.get("discs", []):
            if d["prop"] == self.prop:
                self.discs.append(d)
        for k, n in res.get("disc_count", {}).items():
            if k.startswith(self.prop + "|"):
                self.disc_count[k] = self.disc_count.get(k, 0) + n
        for s in res.get("samples", {}).get(self.prop, []):
            if len(self.cov["samples"]) < 6:
                self.cov["samples"].append(s)

    def add_tlc(self, art):
        st = art_stats(art)
        self.cov["states"] += max(st.get("distinct_states", 0), st.get("obs", 0))
        self.cov["transitions"] += max(st.get("states_generated", 0), st.get("obs", 0))
        self.notes.append("TLC %s: %d distinct states, %d generated, %.0fs (artefact %s)" % (
            st["module"], st["distinct_states"], st["states_generated"], st["wall_s"], os.path.basename(art)))

    def finish(self):
        os.makedirs(os.path.join(EVID, "replay"), exist_ok=True)
        for f in glob.glob(os.path.join(EVID, "replay", self.prop + "-*.json")):
            os.remove(f)
        viol, known_hit = [], {}
        for d in self.discs:
            k = match_known(self.prop, d, self.known)
            if k:
                known_hit.setdefault(k["id"], [k, 0])
                known_hit[k["id"]][1] += 1
            else:
                viol.append(d)
        # total counts (uncapped) per known/unknown
        nviol = 0
        for key, n in self.disc_count.items():
            _, kind, sig = key.split("|", 2)
            if match_known(self.prop, {"kind": kind, "sig": sig}, self.known):
                known_hit.setdefault(match_known(self.prop, {"kind": kind, "sig": sig}, self.known)["id"],
                                     [match_known(self.prop, {"kind": kind, "sig": sig}, self.known), 0])
            else:
                nviol += n
        nviol = max(nviol, len(viol))
        lines = []
        for kid, (k, n) in sorted(known_hit.items()):
            lines.append("KNOWN-FINDING: property=%s %s [%s]" % (self.prop, k["text"], kid))
        seen = set()
        for i, d in enumerate(viol):
            key = (d.get("kind"), d.get("sig"))
            if key in seen and len(seen) > 0 and i > 40:
                continue
            seen.add(key)
            path = os.path.join(EVID, "replay", "%s-%03d.json" % (self.prop, len(seen) if i > 40 else i))
            with open(path, "w") as fh:
                json.dump(d, fh, indent=1)
            if i < 40:
                lines.append("VIOLATION property=%s replay=%s  # %s sig=%s fen=%s" % (
                    self.prop, path, d.get("kind"), d.get("sig"), d.get("fen", "")))
        ev = {"property_id": self.prop, "tier": self.tier, "seed": SEED, "level": self.level,
              "coverage": self.cov, "assumptions": self.assumptions,
              "wall_s": round(time.time() - self.t0, 1), "violations": nviol,
              "known_findings_hit": sorted(known_hit), "notes": self.notes}
        if not self.cov["samples"]:
            self.cov["samples"] = ["(no sample recorded)"]
        os.makedirs(EVID, exist_ok=True)
        with open(os.path.join(EVID, self.prop + ".json"), "w") as fh:
            json.dump(ev, fh, indent=1)
        for ln in lines:
            print(ln)
        print("%s %s: %d evaluations, %d non-trivial, %d violations, %d known findings, %.0fs" % (
            self.prop, self.tier, self.cov["evaluations"], self.cov["distinct_nontrivial"], nviol,
            len(known_hit), time.time() - self.t0))
        return 1 if nviol else 0
