#!/bin/sh
# confirmseed.sh <worktree> : confirms a seeded change - the demonstration test fails with the change and passes without it
# (the worktree holds the change applied, patch.diff and the untracked demo test zz_seeded_demo_test.go)
export GOFLAGS=-mod=mod GOPROXY=off GOSUMDB=off GOTOOLCHAIN=local
wt=$1; cd $wt || exit 2
demo=$(git status --porcelain | grep '^??' | awk '{print $2}' | grep '_test.go$' | head -1)
[ -z "$demo" ] && demo=$(find . -name 'zz_seeded_demo_test.go' | head -1)
pkg=./$(dirname $demo)
echo "demo: $demo  package: $pkg"
git diff --stat | tail -3
go build ./... || { echo "BUILD FAILS"; exit 1; }
go test -vet=off -count=1 -timeout 20m -run 'TestZZSeededDemo' $pkg > /tmp/confirm_with.txt 2>&1; rc1=$?
git apply -R patch.diff || { echo "cannot revert"; exit 2; }
go test -vet=off -count=1 -timeout 20m -run 'TestZZSeededDemo' $pkg > /tmp/confirm_without.txt 2>&1; rc2=$?
git apply patch.diff
echo "with change: rc=$rc1 ($(grep -c -- '--- FAIL' /tmp/confirm_with.txt) FAIL lines); without: rc=$rc2"
tail -3 /tmp/confirm_with.txt | cut -c1-200
[ $rc1 -ne 0 ] && [ $rc2 -eq 0 ] && echo CONFIRMED
