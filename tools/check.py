#!/usr/bin/env python3
"""Orchestrator: one entry point per property and tier.

  tools/check.py <id> [--tier quick|thorough] [--replay <file>]
  tools/check.py setup           pre-computes the TLC artefacts of the quick tier
  tools/check.py selftest        validates the specifications against published numbers

Every verdict comes from behaviour observed in the real engine (built from /repo's working tree
on each invocation); TLC supplies the expected values, the behaviours to replay and the
validation of recorded traces.
"""
import argparse
import json
import os
import sys
import traceback

sys.path.insert(0, os.path.dirname(os.path.abspath(__file__)))
import vlib  # noqa: E402
from vlib import Check, Inconclusive, SEED, log  # noqa: E402
import fenspec  # noqa: E402

VERIF = vlib.VERIF

# ------------------------------------------------------------------------------ chess artefacts


def root_fens():
    out = []
    for line in open(os.path.join(VERIF, "corpus", "roots.fen")):
        line = line.split("#")[0].strip()
        if line:
            out.append(line)
    return out


def roots_ndjson(fens):
    return "".join(json.dumps(fenspec.fen_to_state(f), separators=(",", ":")) + "\n" for f in fens)


def tla_set(xs):
    return "{" + ", ".join('"%s"' % x for x in xs) + "}"


def game_cfg(depth, stack, acts, detail, invariants=("TypeOK", "PosWellFormed", "Obs"), thin=1):
    return """INIT Init
NEXT Next
CONSTANTS
  RootsFile = "roots.ndjson"
  MaxDepth = %d
  MaxStack = %d
  Acts = %s
  Detail = %s
  Thin = %d
INVARIANTS %s
CHECK_DEADLOCK FALSE
""" % (depth, stack, tla_set(acts), tla_set(detail), thin, " ".join(invariants))


def art_tree(fens, depth, detail, tag, workers=16, timeout=7200):
    return vlib.tlc("ChessGame", game_cfg(depth, depth, ["Move"], detail),
                    files={"roots.ndjson": roots_ndjson(fens)}, workers=workers, tag=tag, timeout=timeout)


def art_walk(fens, num, depth, seed, detail, tag, workers=8, timeout=7200):
    # simulation: num behaviours per worker
    per = max(1, num // workers)
    return vlib.tlc("ChessGame", game_cfg(depth, depth, ["Move"], detail),
                    files={"roots.ndjson": roots_ndjson(fens)}, workers=workers, tag=tag, timeout=timeout,
                    args=["-simulate", "num=%d" % per, "-depth", str(depth), "-seed", str(seed)])


def art_dfs(fens, depth, stack, tag, simulate=None, seed=1, workers=16, timeout=7200, thin=1):
    args = []
    if simulate:
        args = ["-simulate", "num=%d" % max(1, simulate // workers), "-depth", str(depth), "-seed", str(seed)]
    return vlib.tlc("ChessGame", game_cfg(depth, stack, ["Move", "Undo", "Null", "UndoNull"], [], thin=thin),
                    files={"roots.ndjson": roots_ndjson(fens)}, workers=workers, tag=tag, timeout=timeout, args=args)


def chess_replay(arts, props, perft=0, timeout=3600):
    """Replays chess artefacts (all generated from the same root list) into the engine."""
    run = vlib.scratch("chess")
    try:
        out = os.path.join(run, "res.json")
        args = ["chess-replay", "-roots", os.path.join(arts[0], "roots.ndjson"),
                "-obs", ",".join(vlib.art_out(a) for a in arts), "-props", ",".join(props),
                "-perft", perft, "-seed", SEED, "-out", out]
        return vlib.run_driver(args, timeout=timeout, cwd=run)
    finally:
        import shutil
        shutil.rmtree(run, ignore_errors=True)


# shared artefacts ---------------------------------------------------------------------------

FEW_PIECE = [f for f in []]


def shared(tier):
    """The chess artefacts of a tier. Quick: depth-2 trees of all roots (pseudo/san/mirror detail),
    depth-1 trees with attacker sets, 64 random walks of 120 plies."""
    fens = root_fens()
    a = {}
    if tier == "quick":
        a["tree"] = art_tree(fens, 2, ["pseudo", "san", "mirror"], "tree2")
        a["att"] = art_tree(fens, 1, ["pseudo", "att"], "tree1att")
        a["walk"] = art_walk(fens, 64, 120, 1000 + SEED, ["mirror"], "walk")
    else:
        a["tree"] = art_tree(fens, 3, ["pseudo", "san", "mirror"], "tree3", timeout=4 * 3600)
        a["att"] = art_tree(fens, 2, ["pseudo", "att"], "tree2att", timeout=4 * 3600)
        a["walk"] = art_walk(fens, 1024, 300, 1000 + SEED, ["mirror"], "walkT")
    return a


def sparse_fens():
    """Few-piece roots (shuffling, repetitions, exhaustive do/undo)."""
    return [f for f in root_fens() if sum(ch.isalpha() for ch in f.split()[0]) <= 5]


# -------------------------------------------------------------------------------- the checks

RULES = {
    "C01": "nodes of the TLC game trees (every root, every path to the depth bound) and of random walks; "
           "non-trivial = node in check, with castling rights, an en-passant target or a promotion among its legal moves",
    "C02": "edges of the TLC game trees and walks (DoMove compared field by field with Apply); "
           "non-trivial = castling, en passant, promotion, capture, or ply > 20",
    "C04": "nodes of trees and walks: path-built vs fresh-from-FEN, totals vs sums, key per position identity; "
           "non-trivial = node reached by at least one move",
}


def std_chess_check(prop, tier, art_names, perft=0, level="model_checking", extra=None):
    ck = Check(prop, tier, level)
    arts = shared(tier)
    use = [arts[n] for n in art_names]
    for a in use:
        ck.add_tlc(a)
    res = chess_replay(use, [prop], perft=perft)
    ck.add_result(res)
    cnt = res["counters"]
    ck.cov["evaluations"] = sum(v for k, v in cnt.items() if k.startswith(prop + ".") and not k.endswith("nontrivial"))
    ck.cov["distinct_nontrivial"] = cnt.get(prop + ".nontrivial", 0)
    ck.cov["traces_validated_against_impl"] = cnt.get("nodes", 0)
    ck.cov["rule"] = RULES.get(prop, "nodes of the TLC-generated game trees and walks replayed in the engine")
    ck.cov["counters"] = {k: v for k, v in cnt.items() if k.startswith(prop + ".") or k == "nodes"}
    if extra:
        extra(ck, res)
    return ck


def check_C01(tier):
    ck = std_chess_check("C01", tier, ["tree", "walk"], perft=2 if tier == "quick" else 3)
    ck.assumptions += ["root corpus corpus/roots.fen (validated WellFormed by TLC)",
                       "the published perft numbers validate ChessRules.tla itself (check.py selftest)"]
    return ck.finish()


def check_C02(tier):
    ck = std_chess_check("C02", tier, ["tree", "walk"])
    return ck.finish()


def check_C04(tier):
    ck = std_chess_check("C04", tier, ["tree", "walk"])
    ck.assumptions.append("different identities are expected to have different 64-bit keys; an accidental collision "
                          "among ~1e5 positions has probability < 1e-9 and would be reported with both FENs")
    return ck.finish()


def check_C08(tier):
    return std_chess_check("C08", tier, ["tree"]).finish()


def check_C09(tier):
    return std_chess_check("C09", tier, ["att"]).finish()


def check_C15(tier):
    return std_chess_check("C15", tier, ["tree", "walk"]).finish()


def check_C17(tier):
    return std_chess_check("C17", tier, ["tree"]).finish()


def art_material():
    cfg = "INIT Init\nNEXT Next\nINVARIANTS Legality ClassSane Obs\nCHECK_DEADLOCK FALSE\n"
    return vlib.tlc("Material", cfg, workers=8, tag="material")


def dfs_arts(tier):
    sp = sparse_fens()
    rich = [f for f in root_fens() if f not in sp]
    if tier == "quick":
        return [art_dfs(sp[:12], 4, 3, "dfsB", thin=2),
                art_dfs(rich + sp, 30, 12, "dfsS", simulate=96, seed=2000 + SEED, thin=5)]
    return [art_dfs(sp, 5, 4, "dfsBT", thin=2, timeout=4 * 3600),
            art_dfs(rich + sp, 60, 24, "dfsST", simulate=2048, seed=2000 + SEED, thin=5, timeout=4 * 3600)]


def check_C03(tier):
    ck = Check("C03", tier)
    arts = dfs_arts(tier)
    for a in arts:
        ck.add_tlc(a)
    cnt = {}
    for a in arts:   # the two artefacts use different root lists
        res = chess_replay([a], ["C03"])
        ck.add_result(res)
        for k, v in res["counters"].items():
            cnt[k] = cnt.get(k, 0) + v
    ck.cov["evaluations"] = cnt.get("C03.steps", 0) + cnt.get("C03.undo_compared", 0)
    ck.cov["distinct_nontrivial"] = cnt.get("C03.undo_compared", 0)
    ck.cov["traces_validated_against_impl"] = cnt.get("nodes", 0)
    ck.cov["rule"] = ("behaviours of ChessGame with Move/Undo/NullMove/UndoNull (exhaustive to 4-5 operations on few-piece roots, "
                      "simulated to 30-60 operations on all roots); every state is replayed on one engine position, compared with the "
                      "spec after each step and with its own snapshot after each undo; non-trivial = states whose last operation is an undo")
    ck.cov["counters"] = cnt
    return ck.finish()


def c10_arts(tier):
    sp = sparse_fens()
    if tier == "quick":
        return [art_walk(sp, 64, 160, 3000 + SEED, [], "rep")]
    return [art_walk(sp, 1024, 300, 3000 + SEED, [], "repT", timeout=4 * 3600),
            art_tree(sp[:3], 6, [], "repB", timeout=4 * 3600)]


def check_C10(tier):
    ck = Check("C10", tier)
    arts = c10_arts(tier)
    cnt = {}
    for a in arts:
        ck.add_tlc(a)
        res = chess_replay([a], ["C10"])
        ck.add_result(res)
        for k, v in res["counters"].items():
            cnt[k] = cnt.get(k, 0) + v
    am = art_material()
    ck.add_tlc(am)
    run = vlib.scratch("mat")
    try:
        res = vlib.run_driver(["material", "-obs", vlib.art_out(am), "-out", os.path.join(run, "res.json")], cwd=run)
    finally:
        import shutil
        shutil.rmtree(run, ignore_errors=True)
    ck.add_result(res)
    for k, v in res["counters"].items():
        cnt[k] = cnt.get(k, 0) + v
    ck.cov["evaluations"] = cnt.get("C10.nodes", 0) + cnt.get("C10.configurations", 0)
    ck.cov["distinct_nontrivial"] = cnt.get("C10.nontrivial", 0)
    ck.cov["traces_validated_against_impl"] = cnt.get("nodes", 0)
    ck.cov["rule"] = ("repetition/clock: states of random walks (with their one-step fringe) from few-piece roots, incl. clocks 97-100; "
                      "non-trivial = states that occurred before (RepCount >= 1). material: all 7,056 material pairs x side to move "
                      "enumerated by Material.tla; non-trivial = configurations not decided by a pawn")
    ck.cov["counters"] = cnt
    ck.cov["material_classes"] = res.get("extra", {}).get("classes")
    return ck.finish()


def tt_cfg(nslots, tags, depths, vals, types, moves, maxage, maxops, chains, seed, extra=""):
    def st(x):
        return x if isinstance(x, str) else "{" + ", ".join(map(str, x)) + "}"
    return ("SPECIFICATION Spec\nCONSTANTS\n  NSlots = %d\n  Tags = %s\n  Depths %s\n  Vals %s\n  Types = %s\n  Moves = %s\n"
            "  MaxAge = %d\n  MaxOps = %d\n  Chains = %d\n  Seed = %d\n%sCHECK_DEADLOCK FALSE\n"
            % (nslots, st(tags), depths, vals, st(types), st(moves), maxage, maxops, chains, seed, extra))


def check_C11(tier):
    ck = Check("C11", tier)
    quick = tier == "quick"
    # 1. the abstract model, exhaustively (history variables hidden by the VIEW)
    dset = "= {0, 1}" if quick else "= {0, 1, 2}"
    vset = "= {0, 1}" if quick else "= {0, 1, 2}"
    a1 = vlib.tlc("TT", tt_cfg(2, [1, 2], dset, vset, [1, 2], [0, 1], 3, 60, 0, 1,
                               "VIEW absView\nINVARIANTS TypeOK LookupIntact CountExact\nPROPERTIES EvictionRule NoSilentLoss\n"),
                  workers=16, tag="tt-exh", keep_out=False)
    ck.add_tlc(a1)
    # 2. generator: pseudo-random chains over colliding keys, boundary depths and values
    nch, nops = (100, 200) if quick else (2000, 500)
    a2 = vlib.tlc("TT", tt_cfg(4, [1, 2, 3, 4], "<- ChainDepths", "<- ChainVals", [1, 2, 3], [0, 1, 2], 100, nops, nch, SEED,
                               "INVARIANTS TypeOK LookupIntact CountExact Obs\nPROPERTIES EvictionRule NoSilentLoss\n"),
                  workers=16, tag="tt-chains", timeout=4 * 3600)
    ck.add_tlc(a2)
    run = vlib.scratch("tt")
    try:
        res = vlib.run_driver(["tt-replay", "-obs", vlib.art_out(a2), "-out", os.path.join(run, "res.json")], cwd=run)
        ck.add_result(res)
        cnt = dict(res["counters"])
        # 3. the other direction: histories driven on the real table, validated by TTTrace
        ntr, ln = (20, 300) if quick else (8 * 40, 500)
        files = 1 if quick else 8
        accepted = 0
        for k in range(files):
            tf = os.path.join(run, "tt%d.ndjson" % k)
            vlib.run_driver(["tt-record", "-trace", tf, "-num", ntr // files, "-len", ln, "-seed", SEED * 100 + k], cwd=run)
            trace = open(tf).read()
            nlines = trace.count("\n")
            cfg = tt_cfg(4, [1, 2, 3, 4], "<- ChainDepths", "<- ChainVals", [1, 2, 3], [0, 1, 2], 1000, 100000000, 1, 1,
                         '  TraceFile = "trace.ndjson"\nINVARIANTS TypeOK LookupIntact CountExact\nPOSTCONDITION TraceAccepted\n').replace(
                             "SPECIFICATION Spec", "SPECIFICATION TSpec").replace("CONSTANTS\n", "CONSTANTS\n", 1)
            # constants block must contain TraceFile: move it up
            cfg = cfg.replace('  TraceFile = "trace.ndjson"\n', "").replace("CONSTANTS\n", 'CONSTANTS\n  TraceFile = "trace.ndjson"\n', 1)
            art = vlib.tlc("TTTrace", cfg, files={"trace.ndjson": trace}, workers=1, tag="tt-trace", cache=False, expect_ok=False,
                           keep_out=False)
            st = vlib.art_stats(art)
            import shutil
            shutil.rmtree(art, ignore_errors=True)
            cnt["C11.trace_events"] = cnt.get("C11.trace_events", 0) + nlines
            if st.get("diameter", 0) - 1 == nlines and not st["error"]:
                accepted += ntr // files
            elif st.get("diameter"):
                bad = st["diameter"]          # 1-based line that could not be matched
                lines = trace.splitlines()
                ev = json.loads(lines[bad - 1]) if bad - 1 < len(lines) else {}
                start = max(i for i in range(bad) if '"Reset"' in lines[i])
                d = {"prop": "C11", "kind": "trace-rejected", "sig": "trace/" + ev.get("ev", "?"),
                     "detail": {"event": ev, "line": bad, "note": "the real table's reply is not a step of TT.tla"},
                     "replay": {"trace": [json.loads(x) for x in lines[start:bad]]}}
                ck.discs.append(d)
                ck.disc_count["C11|trace-rejected|" + d["sig"]] = ck.disc_count.get("C11|trace-rejected|" + d["sig"], 0) + 1
            else:
                raise Inconclusive("TTTrace run failed: %s" % st.get("error"))
            ck.cov["states"] += st.get("distinct_states", 0)
            ck.cov["transitions"] += st.get("states_generated", 0)
        cnt["C11.traces_accepted"] = accepted
    finally:
        import shutil
        shutil.rmtree(run, ignore_errors=True)
    ck.cov["evaluations"] = cnt.get("C11.operations", 0) + cnt.get("C11.values_roundtrip", 0) + cnt.get("C11.trace_events", 0)
    ck.cov["distinct_nontrivial"] = cnt.get("C11.nontrivial", 0)
    ck.cov["traces_validated_against_impl"] = cnt.get("C11.behaviours", 0) + accepted
    ck.cov["rule"] = ("TLC-generated operation chains over 4 slots x 4 colliding tags (all boundary depths, draw/mate/extreme values, "
                      "MoveNone) replayed on a real 1 MB table with the full projection compared after each step; every value "
                      "-10000..10000 x 4 moves stored and read back; real random histories validated by TTTrace.tla; "
                      "non-trivial = stores that meet a slot held by a different key")
    ck.cov["counters"] = cnt
    ck.assumptions += ["key 0 is the engine's empty marker and is never used as a key (a Zobrist key of 0 has probability 2^-64)",
                       "AgeEntries is applied fewer than 100 times in a row (the age is an int8)"]
    return ck.finish()


GEO_TABLES = ["knight", "king", "pseudoB", "pseudoR", "pseudoQ", "filesWest", "filesEast", "fileWest", "fileEast",
              "ranksNorth", "ranksSouth", "neighbours", "center", "castle", "pawn", "passed", "ray", "to", "shift",
              "between", "dist"]


def art_geometry(tier):
    lines = "inner" if tier == "quick" else "full"
    cfg = ("INIT Init\nNEXT Next\nCONSTANTS\n  Lines = \"%s\"\n  Tables = %s\nINVARIANTS GeoSane Out\nCHECK_DEADLOCK FALSE\n"
           % (lines, tla_set(GEO_TABLES)))
    return vlib.tlc("Geometry", cfg, workers=16, tag="geo-" + lines, timeout=4 * 3600)


def check_C18(tier):
    ck = Check("C18", tier)
    a = art_geometry(tier)
    ck.add_tlc(a)
    run = vlib.scratch("geo")
    try:
        res = vlib.run_driver(["geom", "-obs", vlib.art_out(a), "-seed", SEED, "-out", os.path.join(run, "res.json")], cwd=run)
    finally:
        import shutil
        shutil.rmtree(run, ignore_errors=True)
    ck.add_result(res)
    cnt = res["counters"]
    ck.cov["evaluations"] = cnt.get("C18.queries", 0) + cnt.get("C18.shift_additivity", 0)
    ck.cov["distinct_nontrivial"] = cnt.get("C18.nontrivial", 0)
    ck.cov["traces_validated_against_impl"] = cnt.get("C18.entries", 0)
    ck.cov["exhaustive"] = True
    ck.cov["rule"] = ("every entry of every table enumerated by Geometry.tla (sliding attacks: every occupancy of the %s line squares of "
                      "every square, each queried with three off-line occupancy variants); non-trivial = entries other than the "
                      "empty-occupancy sliding entries" % ("inner (magic-table)" if tier == "quick" else "full"))
    ck.cov["entries_per_table"] = res.get("extra", {}).get("entries_per_table")
    return ck.finish()


CHECKS = {k[6:]: v for k, v in list(globals().items()) if k.startswith("check_C")}


def setup():
    vlib.driver()
    shared("quick")
    dfs_arts("quick")
    c10_arts("quick")
    art_material()
    art_geometry("quick")
    print("setup done")
    return 0


def main():
    ap = argparse.ArgumentParser()
    ap.add_argument("what")
    ap.add_argument("--tier", default=os.environ.get("VERIF_TIER", "quick"))
    ap.add_argument("--replay")
    a = ap.parse_args()
    try:
        if a.what == "setup":
            return setup()
        if a.what not in CHECKS:
            print("unknown check", a.what)
            return 2
        return CHECKS[a.what](a.tier)
    except Inconclusive as e:
        print("INCONCLUSIVE: %s" % e)
        return 2
    except Exception:
        traceback.print_exc()
        print("INCONCLUSIVE: orchestrator error")
        return 2


if __name__ == "__main__":
    sys.exit(main())
