#!/usr/bin/env python3
"""Orchestrator: one entry point per property and tier.

  tools/check.py <id> [--tier quick|thorough] [--replay <file>]
  tools/check.py setup           pre-computes the TLC artefacts of the quick tier
  tools/check.py selftest        validates the specifications against published numbers

Every verdict comes from behaviour observed in the real engine (built from /repo's working tree
on each invocation); TLC supplies the expected values, the behaviours to replay and the
validation of recorded traces.
"""
import argparse
import json
import os
import re
import sys
import traceback

sys.path.insert(0, os.path.dirname(os.path.abspath(__file__)))
import vlib  # noqa: E402
from vlib import Check, Inconclusive, SEED, log  # noqa: E402
import fenspec  # noqa: E402
import searchlib as sl  # noqa: E402
import ucilib as ul  # noqa: E402
import booklib as bl  # noqa: E402
import random  # noqa: E402

VERIF = vlib.VERIF

# ------------------------------------------------------------------------------ chess artefacts


def root_fens():
    out = []
    for line in open(os.path.join(VERIF, "corpus", "roots.fen")):
        line = line.split("#")[0].strip()
        if line:
            out.append(line)
    return out


def roots_ndjson(fens):
    return "".join(json.dumps(fenspec.fen_to_state(f), separators=(",", ":")) + "\n" for f in fens)


def tla_set(xs):
    return "{" + ", ".join('"%s"' % x for x in xs) + "}"


def game_cfg(depth, stack, acts, detail, invariants=("TypeOK", "PosWellFormed", "Obs"), thin=1, walks=0, walkseed=1):
    return """INIT Init
NEXT Next
CONSTANTS
  RootsFile = "roots.ndjson"
  MaxDepth = %d
  MaxStack = %d
  Acts = %s
  Detail = %s
  Thin = %d
  Walks = %d
  WalkSeed = %d
INVARIANTS %s
CHECK_DEADLOCK FALSE
""" % (depth, stack, tla_set(acts), tla_set(detail), thin, walks, walkseed, " ".join(invariants))


def art_tree(fens, depth, detail, tag, workers=16, timeout=7200, heap="8g"):
    return vlib.tlc("ChessGame", game_cfg(depth, depth, ["Move"], detail),
                    files={"roots.ndjson": roots_ndjson(fens)}, workers=workers, tag=tag, timeout=timeout, heap=heap)


def art_walk(fens, num, depth, seed, detail, tag, workers=8, timeout=7200):
    # simulation: num behaviours per worker
    per = max(1, num // workers)
    return vlib.tlc("ChessGame", game_cfg(depth, depth, ["Move"], detail),
                    files={"roots.ndjson": roots_ndjson(fens)}, workers=workers, tag=tag, timeout=timeout,
                    args=["-simulate", "num=%d" % per, "-depth", str(depth), "-seed", str(seed)])


def art_dfs(fens, depth, stack, tag, simulate=None, seed=1, workers=16, timeout=7200, thin=1):
    args = []
    if simulate:
        args = ["-simulate", "num=%d" % max(1, simulate // workers), "-depth", str(depth), "-seed", str(seed)]
    return vlib.tlc("ChessGame", game_cfg(depth, stack, ["Move", "Undo", "Null", "UndoNull"], [], thin=thin),
                    files={"roots.ndjson": roots_ndjson(fens)}, workers=workers, tag=tag, timeout=timeout, args=args)


def art_deep(tier):
    """Generator configuration with undo: walks of up to `plies` moves from rich and sparse roots, then the complete
    unwinding - histories up to the engine's documented capacity (512 plies) and the undo of every one of them."""
    fens = root_fens()
    sp = sparse_fens()
    pick = [fens[0], fens[1]] + sp[:6] if tier == "quick" else fens[:6] + sp[:26]
    walks, plies = (8, 505) if tier == "quick" else (64, 505)
    return vlib.tlc("ChessGame", game_cfg(2 * plies, plies, ["Move", "Undo"], [], walks=walks, walkseed=3000 + SEED),
                    files={"roots.ndjson": roots_ndjson(pick)}, workers=8, tag="deep", timeout=4 * 3600, heap="12g")


def chess_replay(arts, props, perft=0, timeout=3600, thin=1):
    """Replays chess artefacts into the engine. Artefacts generated from the same root list are replayed together (one
    driver run: transpositions and keys are compared across them); the results of the groups are merged."""
    import shutil
    groups = {}
    for a in arts:
        groups.setdefault(open(os.path.join(a, "roots.ndjson")).read(), []).append(a)
    merged = None

    def tree_depth(a):
        """Depth of a complete game tree artefact (0 for walks and other partial explorations)."""
        import re
        cfg = open(os.path.join(a, "run.cfg")).read()
        if "-simulate" in vlib.art_stats(a).get("args", []) or not re.search(r"Walks = 0\b", cfg) or 'Acts = {"Move"}' not in cfg:
            return 0
        m = re.search(r"MaxDepth = (\d+)", cfg)
        return int(m.group(1)) if m else 0
    for grp in groups.values():
        run = vlib.scratch("chess")
        try:
            out = os.path.join(run, "res.json")
            # perft totals are compared with TLC's level counts only as deep as a COMPLETE tree of the group reaches
            gperft = min(perft, max(tree_depth(a) for a in grp))
            args = ["chess-replay", "-roots", os.path.join(grp[0], "roots.ndjson"),
                    "-obs", ",".join(vlib.art_out(a) for a in grp), "-props", ",".join(props),
                    "-perft", gperft, "-seed", SEED, "-thin", thin, "-out", out]
            res = vlib.run_driver(args, timeout=timeout, cwd=run)
        finally:
            shutil.rmtree(run, ignore_errors=True)
        if merged is None:
            merged = res
            continue
        merged["discs"] = (merged.get("discs") or []) + (res.get("discs") or [])
        for key in ("disc_count", "counters"):
            for k, v in (res.get(key) or {}).items():
                merged.setdefault(key, {})
                merged[key][k] = merged[key].get(k, 0) + v
        for k, v in (res.get("samples") or {}).items():
            merged.setdefault("samples", {}).setdefault(k, [])
            merged["samples"][k] += v
    return merged


def engine_games(ck, prop, tier, kinds):
    """The other direction: games played by the engine, validated ply by ply by ChessGameTrace.tla.
    kinds: which mismatch kinds count for this property."""
    import concurrent.futures
    import shutil
    files, games, plies = (4, 12, 150) if tier == "quick" else (16, 150, 300)
    run = vlib.scratch("cgt")
    roots = roots_ndjson(root_fens())
    try:
        with open(os.path.join(run, "roots.ndjson"), "w") as fh:
            fh.write(roots)

        def one(k):
            tf = os.path.join(run, "g%d.ndjson" % k)
            vlib.run_driver(["chess-record", "-roots", os.path.join(run, "roots.ndjson"), "-trace", tf, "-games", games, "-plies", plies,
                             "-seed", SEED * 1000 + k], cwd=run)
            trace = open(tf).read()
            cfg = game_cfg(100000, 100000, ["Move"], [], invariants=("PosWellFormed",)).replace("INIT Init\nNEXT Next", "SPECIFICATION TSpec") \
                .replace("CONSTANTS\n", 'CONSTANTS\n  TraceFile = "trace.ndjson"\n', 1).replace("CHECK_DEADLOCK FALSE", "POSTCONDITION TraceAccepted\nCHECK_DEADLOCK FALSE")
            art = vlib.tlc("ChessGameTrace", cfg, files={"roots.ndjson": roots, "trace.ndjson": trace}, workers=1, tag="cgtrace", cache=False,
                           expect_ok=False, heap="3g", timeout=3600)
            st = vlib.art_stats(art)
            mism = [l.strip() for l in vlib.tlc_lines(art, '<<"TRACE-MISMATCH"')]
            shutil.rmtree(art, ignore_errors=True)
            return trace.splitlines(), st, mism
        nev = nacc = 0
        with concurrent.futures.ThreadPoolExecutor(max_workers=8) as ex:
            for lines, st, mism in ex.map(one, range(files)):
                nev += len(lines)
                ck.cov["states"] += st.get("distinct_states", 0)
                ck.cov["transitions"] += st.get("states_generated", 0)
                if st.get("diameter", 0) - 1 == len(lines) and not st["error"]:
                    nacc += 1
                    continue
                if not st.get("diameter"):
                    raise Inconclusive("ChessGameTrace failed: %s" % st.get("error"))
                bad = st["diameter"]
                why = mism[0].split(",")[-1].strip(' ">') if mism else "unknown"
                ev = json.loads(lines[bad - 1])
                start = max(i for i in range(bad) if '"Reset"' in lines[i])
                if why in kinds or why == "unknown":
                    d = {"prop": prop, "kind": "engine-game-rejected-by-specification", "sig": "trace/" + why,
                         "fen": fenspec.state_to_fen(ev["pos"]),
                         "detail": {"ply": bad - start - 1, "move": fenspec.mv_uci(ev["m"]), "mismatch": why},
                         "replay": {"trace": [json.loads(x) for x in lines[start:bad]]}}
                    ck.discs.append(d)
                    key = "%s|%s|%s" % (prop, d["kind"], d["sig"])
                    ck.disc_count[key] = ck.disc_count.get(key, 0) + 1
        ck.cov["traces_validated_against_impl"] += nacc * games
        ck.cov.setdefault("counters", {})["engine_game_plies_validated"] = nev
        ck.cov["evaluations"] += nev
    finally:
        shutil.rmtree(run, ignore_errors=True)


# shared artefacts ---------------------------------------------------------------------------

FEW_PIECE = [f for f in []]


def extra_fens():
    """Roots added after the main corpus was frozen (corpus/roots_extra.fen): they get small artefacts of their own, so that a
    new corner case does not invalidate the large artefacts of the main corpus."""
    p = os.path.join(VERIF, "corpus", "roots_extra.fen")
    return [l.strip() for l in open(p) if l.strip() and not l.startswith("#")] if os.path.exists(p) else []


def shared(tier):
    """The chess artefacts of a tier. Quick: depth-2 trees of all roots (pseudo/san/mirror detail),
    depth-1 trees with attacker sets, 64 random walks of 120 plies."""
    fens = root_fens()
    a = {}
    xf = extra_fens()
    if xf:
        d = 3       # (few-piece corner cases: depth 3 in both tiers - perft to depth 3 found the on-demand perft defect of 11.3)
        a["treex"] = art_tree(xf, d, ["pseudo", "san", "mirror"], "tree%dx" % d)
        a["attx"] = art_tree(xf, d - 1 if d > 2 else 2, ["pseudo", "att"], "attx")
    if tier == "quick":
        a["tree"] = art_tree(fens, 2, ["pseudo", "san", "mirror"], "tree2")
        a["att"] = art_tree(fens, 1, ["pseudo", "att"], "tree1att")
        a["walk"] = art_walk(fens, 64, 120, 1000 + SEED, ["mirror"], "walk")
    else:
        # depth 2 for every root (the quick artefact) and depth 3 for every fourth root, in batches: one TLC run over all roots
        # at depth 3 needs more memory than this machine gives it
        a["tree"] = art_tree(fens, 2, ["pseudo", "san", "mirror"], "tree2")
        sub = fens[:6] + fens[6::4]
        a["tree3"] = [art_tree(sub[i:i + 12], 3, ["pseudo", "san", "mirror"], "tree3-%d" % (i // 12), workers=12, timeout=4 * 3600, heap="14g")
                      for i in range(0, len(sub), 12)]
        a["att"] = art_tree(fens, 2, ["pseudo", "att"], "tree2att", timeout=4 * 3600, heap="14g")
        a["walk"] = art_walk(fens, 1024, 300, 1000 + SEED, ["mirror"], "walkT")
    return a


def sparse_fens():
    """Few-piece roots (shuffling, repetitions, exhaustive do/undo)."""
    return [f for f in root_fens() if sum(ch.isalpha() for ch in f.split()[0]) <= 5]


# -------------------------------------------------------------------------------- the checks

RULES = {
    "C01": "nodes of the TLC game trees (every root, every path to the depth bound) and of random walks; "
           "non-trivial = node in check, with castling rights, an en-passant target or a promotion among its legal moves",
    "C02": "edges of the TLC game trees and walks (DoMove compared field by field with Apply); "
           "non-trivial = castling, en passant, promotion, capture, or ply > 20",
    "C04": "nodes of trees and walks: path-built vs fresh-from-FEN, totals vs sums, key per position identity; "
           "non-trivial = node reached by at least one move",
}


def deep_replay(ck, prop, tier):
    """Histories up to the documented capacity: the deep walks (only the moves out, not their unwinding)."""
    a = art_deep(tier)
    ck.add_tlc(a)
    res = chess_replay([a], [prop])
    ck.add_result(res)
    for k, v in res["counters"].items():
        if k.startswith(prop + ".") or k == "nodes":
            ck.cov["counters"][k] = ck.cov["counters"].get(k, 0) + v
            if k.startswith(prop + ".") and not k.endswith("nontrivial"):
                ck.cov["evaluations"] += v
    ck.cov["counters"]["deep_walk_nodes"] = res["counters"].get("nodes", 0)


def std_chess_check(prop, tier, art_names, perft=0, level="model_checking", extra=None, thin=1):
    ck = Check(prop, tier, level)
    arts = shared(tier)
    use = [arts[n] for n in art_names] + (arts.get("tree3", []) if "tree" in art_names else [])
    use += [arts[x] for x, base in (("treex", "tree"), ("attx", "att")) if base in art_names and x in arts]
    for a in use:
        ck.add_tlc(a)
    res = chess_replay(use, [prop], perft=perft, thin=thin, timeout=3 * 3600)
    ck.add_result(res)
    cnt = res["counters"]
    ck.cov["evaluations"] = sum(v for k, v in cnt.items() if k.startswith(prop + ".") and not k.endswith("nontrivial"))
    ck.cov["distinct_nontrivial"] = cnt.get(prop + ".nontrivial", 0)
    ck.cov["traces_validated_against_impl"] = cnt.get("nodes", 0)
    ck.cov["rule"] = RULES.get(prop, "nodes of the TLC-generated game trees and walks replayed in the engine")
    ck.cov["counters"] = {k: v for k, v in cnt.items() if k.startswith(prop + ".") or k == "nodes"}
    if extra:
        extra(ck, res)
    return ck


def check_C01(tier):
    ck = std_chess_check("C01", tier, ["tree", "walk"], perft=3,      # (compared as deep as the complete tree of a root group reaches)
                         extra=lambda ck, res: engine_games(ck, "C01", tier, {"move-not-legal", "legal-move-list"}))
    ck.assumptions += ["root corpus corpus/roots.fen (validated WellFormed by TLC)",
                       "the published perft numbers validate ChessRules.tla itself (check.py selftest)"]
    return ck.finish()


def check_C02(tier):
    ck = std_chess_check("C02", tier, ["tree", "walk"], extra=lambda ck, res: engine_games(ck, "C02", tier, {"successor-position"}))
    deep_replay(ck, "C02", tier)
    return ck.finish()


def check_C04(tier):
    ck = std_chess_check("C04", tier, ["tree", "walk"])
    deep_replay(ck, "C04", tier)
    ck.assumptions.append("different identities are expected to have different 64-bit keys; an accidental collision "
                          "among ~1e5 positions has probability < 1e-9 and would be reported with both FENs")
    return ck.finish()


def od_conformance(ck, tier):
    """The phased generator as a state machine: MoveGenOD.tla model-checked over abstract moves, and runs of the real
    generator (state after every call, through the hook) validated against it - MoveGenODTrace.tla."""
    import shutil
    quick = tier == "quick"
    cfg = ("SPECIFICATION Spec\nCONSTANTS\n  Moves = {1, 2, 3}\n  WithEvasion = TRUE\n"
           "INVARIANTS TypeOK BatchSane NoneIsFinal Exact PvFirst EvasionSound\nPROPERTIES Progress\nCHECK_DEADLOCK FALSE\n")
    a = vlib.tlc("MoveGenOD", cfg, workers=8, tag="od-mc", keep_out=False)
    ck.add_tlc(a)
    tree = shared(tier)["tree"]
    run = vlib.scratch("od")
    try:
        tf, xf = os.path.join(run, "trace.ndjson"), os.path.join(run, "index.json")
        res = vlib.run_driver(["od-record", "-obs", vlib.art_out(tree), "-trace", tf, "-index", xf, "-every", 60 if quick else 12,
                               "-max", 2500 if quick else 40000, "-seed", SEED, "-out", os.path.join(run, "res.json")], cwd=run)
        ck.add_result(res)
        index = json.load(open(xf))
        trace = open(tf).read()
    finally:
        shutil.rmtree(run, ignore_errors=True)
    for k, v in res["counters"].items():
        ck.cov["counters"][k] = v
    nlines = res["counters"].get("C08.od_lines", 0)
    tcfg = ('SPECIFICATION TSpec\nCONSTANTS\n  Moves = {1}\n  WithEvasion = FALSE\n  TraceFile = "trace.ndjson"\n'
            "CONSTRAINT Mark\nINVARIANTS TypeOK PropsReport\nPOSTCONDITION Report\nCHECK_DEADLOCK FALSE\n")
    art = vlib.tlc("MoveGenODTrace", tcfg, files={"trace.ndjson": trace}, workers=1, tag="od-trace", cache=False, heap="6g", timeout=3600,
                   env_opts=["-Dtlc2.tool.queue.IStateQueue=StateDeque"], expect_ok=False)
    st = vlib.art_stats(art)
    reached = None
    props = []
    for l in vlib.tlc_lines(art, '<<"OD-'):
        f = [x.strip(' "<>\n') for x in l.split(",")]
        if f[0] == "OD-VERDICT":
            reached = int(f[1])
        elif f[0] == "OD-PROP":
            props.append((f[1], int(f[2])))
    shutil.rmtree(art, ignore_errors=True)
    if reached is None:
        raise Inconclusive("MoveGenODTrace gave no verdict: %s" % st.get("error"))
    ck.cov["states"] += st.get("distinct_states", 0)
    ck.cov["transitions"] += st.get("states_generated", 0)

    def run_of(line):
        cand = [x for x in index if x["line"] <= line]
        return cand[-1] if cand else index[0]

    def disc(kind, sig, x, detail):
        ck.discs.append({"prop": "C08", "kind": kind, "sig": sig, "fen": x["fen"], "detail": detail, "replay": {"run": x}})
        key = "C08|%s|%s" % (kind, sig)
        ck.disc_count[key] = ck.disc_count.get(key, 0) + 1
    if reached <= nlines:
        x = run_of(reached)
        disc("phased-generator-run-not-a-behaviour-of-MoveGenOD", "od-trace/%s%s" % (x["mode"], "/evasion" if x["evasion"] else ""), x,
             {"trace_line": reached, "call_in_run": reached - x["line"], "event": json.loads(trace.splitlines()[reached - 1]),
              "note": "the stage machine cannot produce this returned move / stage / take index / batch length / pushed flag"})
    seenp = set()
    for name, line in props:
        x = run_of(line - 1)
        if (name, x["line"]) in seenp:
            continue
        seenp.add((name, x["line"]))
        disc("phased-generator-property-" + name, "od-prop/%s/%s%s" % (name, x["mode"], "/evasion" if x["evasion"] else ""), x,
             {"property": name, "note": "violated on a real run (inputs from ChessRules!GenClass)"})
    ck.cov["counters"]["C08.od_lines_validated"] = min(reached - 1, nlines)
    ck.cov["traces_validated_against_impl"] += res["counters"].get("C08.od_runs", 0) if reached > nlines else 0
    ck.cov["evaluations"] += min(reached - 1, nlines)


def check_C08(tier):
    ck = std_chess_check("C08", tier, ["tree"], extra=lambda ck, res: od_conformance(ck, tier))
    ck.cov["rule"] += ("; the phased generator's stage machine MoveGenOD.tla model-checked (all inputs over 3 abstract moves) and real runs "
                       "(every call with stage / take index / batch length / pushed flag) validated against it")
    return ck.finish()


def check_C09(tier):
    def histories(ck, res0):
        # the cached check flag after do / undo / null-move histories (the behaviours of C03): asked of every position on the way,
        # then compared with the board at the end
        for a in dfs_arts(tier):
            ck.add_tlc(a)
            res = chess_replay([a], ["C09"])
            ck.add_result(res)
            ck.cov["counters"]["C09.has_check_after_history"] = ck.cov["counters"].get("C09.has_check_after_history", 0) + res["counters"].get("C09.has_check_after_history", 0)
        engine_games(ck, "C09", tier, {"in-check"})
    return std_chess_check("C09", tier, ["att", "tree"], extra=histories).finish()


def check_C15(tier):
    def dead_material(ck, res0):
        # 'insufficient material evaluates to exactly 0' on every material configuration of Material.tla (all pairs of
        # up to three non-king pieces per side, both sides to move) that the engine classifies as insufficient
        import shutil
        am = art_material()
        ck.add_tlc(am)
        run = vlib.scratch("mat")
        try:
            res = vlib.run_driver(["material", "-obs", vlib.art_out(am), "-out", os.path.join(run, "res.json")], cwd=run)
        finally:
            shutil.rmtree(run, ignore_errors=True)
        ck.add_result(res)
        n = res["counters"].get("C15.insufficient_positions", 0)
        ck.cov["counters"]["C15.insufficient_material_configurations"] = n
        ck.cov["evaluations"] += n
    # (thorough tier: every eighth node of the 3.5 million walk nodes - each costs some forty evaluations and a replay of its path)
    ck = std_chess_check("C15", tier, ["tree", "walk"], extra=dead_material, thin=1 if tier == "quick" else 8)
    ck.cov["rule"] += "; every material configuration of Material.tla that the engine calls insufficient must evaluate to 0"
    return ck.finish()


def check_C17(tier):
    def enc(ck, res):
        import shutil
        cfg = "INIT Init\nNEXT Next\nINVARIANTS Laws Out\nCHECK_DEADLOCK FALSE\n"
        a = vlib.tlc("MoveEnc", cfg, workers=8, tag="moveenc")
        ck.add_tlc(a)
        run = vlib.scratch("enc")
        try:
            r2 = vlib.run_driver(["move-enc", "-obs", vlib.art_out(a), "-full", 4096 if tier == "quick" else 16,
                                  "-out", os.path.join(run, "res.json")], cwd=run, timeout=3600)
        finally:
            shutil.rmtree(run, ignore_errors=True)
        ck.add_result(r2)
        ck.cov["evaluations"] += r2["counters"].get("C17.enc_checks", 0)
        ck.cov["distinct_nontrivial"] += r2["counters"].get("C17.enc_tuples", 0)
        ck.cov["counters"].update(r2["counters"])
        ck.cov["rule"] = ("notation: every legal move of every TLC tree node rendered in UCI and five SAN decorations (components from SanOf) and "
                          "parsed back; hint-stripped SAN must give the unique match of SanMatches or no move; illegal pseudo-legal moves "
                          "must not parse. encoding: all 65,536 field tuples enumerated by MoveEnc.tla x 13 boundary sort values (create, "
                          "set-value, overwrite), the full value range on every %d-th tuple" % (4096 if tier == "quick" else 16))
    return std_chess_check("C17", tier, ["tree"], extra=enc).finish()


def art_material():
    cfg = "INIT Init\nNEXT Next\nINVARIANTS Legality ClassSane Obs\nCHECK_DEADLOCK FALSE\n"
    return vlib.tlc("Material", cfg, workers=8, tag="material")


def dfs_arts(tier):
    sp = sparse_fens()
    rich = [f for f in root_fens() if f not in sp]
    if tier == "quick":
        return [art_dfs(sp[:12], 4, 3, "dfsB", thin=2),
                art_dfs(rich + sp, 30, 12, "dfsS", simulate=96, seed=2000 + SEED, thin=5)]
    return [art_dfs(sp, 5, 4, "dfsBT", thin=2, timeout=4 * 3600),
            art_dfs(rich + sp, 60, 24, "dfsST", simulate=2048, seed=2000 + SEED, thin=5, timeout=4 * 3600)]


def check_C03(tier):
    ck = Check("C03", tier)
    arts = dfs_arts(tier)
    for a in arts:
        ck.add_tlc(a)
    cnt = {}
    arts.append(art_deep(tier))
    ck.add_tlc(arts[-1])
    for a in arts:   # the artefacts use different root lists
        res = chess_replay([a], ["C03"])
        ck.add_result(res)
        for k, v in res["counters"].items():
            cnt[k] = cnt.get(k, 0) + v
    ck.cov["evaluations"] = cnt.get("C03.steps", 0) + cnt.get("C03.undo_compared", 0)
    ck.cov["distinct_nontrivial"] = cnt.get("C03.undo_compared", 0)
    ck.cov["traces_validated_against_impl"] = cnt.get("nodes", 0)
    ck.cov["rule"] = ("behaviours of ChessGame with Move/Undo/NullMove/UndoNull (exhaustive to 4-5 operations on few-piece roots, "
                      "simulated to 30-60 operations on all roots, and walks of up to 505 plies - the documented capacity is 512 - followed by their complete unwinding); every state is replayed on one engine position, compared with the "
                      "spec after each step and with its own snapshot after each undo; non-trivial = states whose last operation is an undo")
    ck.cov["counters"] = cnt
    return ck.finish()


def c10_arts(tier):
    sp = sparse_fens()
    if tier == "quick":
        return [art_walk(sp, 64, 160, 3000 + SEED, [], "rep")]
    return [art_walk(sp, 1024, 300, 3000 + SEED, [], "repT", timeout=4 * 3600),
            art_tree(sp[:3], 6, [], "repB", timeout=4 * 3600)]


def check_C10(tier):
    ck = Check("C10", tier)
    arts = c10_arts(tier)
    cnt = {}
    for a in arts:
        ck.add_tlc(a)
        res = chess_replay([a], ["C10"])
        ck.add_result(res)
        for k, v in res["counters"].items():
            cnt[k] = cnt.get(k, 0) + v
    # games that TRADE DOWN from more material than a game starts with (ChessGameLong.tla, policy "trade": whoever can capture
    # usually does): extra queens and rooks, an early capturing promotion. Their late positions - bare kings with a piece or two,
    # the last capture often made by a king - have a history that has seen more material than the board shows; whatever the
    # engine keeps incrementally must still say what the board says (the driver asks the path-built position as well as a fresh one)
    surplus = ["1q1q1q1k/7r/8/8/8/8/R7/K1Q1Q1Q1 w - - 0 1", "rnbqkbnr/Pppppppp/8/8/8/8/1PPPPPPP/RNBQKBNR w KQkq - 0 1",
               "7k/1q1q1q2/8/8/8/8/2Q1Q1Q1/R3K3 w Q - 0 1", "rnbqkbnr/pppppppp/8/8/8/8/PPPPPPPp/RNBQKBN1 b Qkq - 0 1"]
    tcfg = game_cfg(220, 220, ["Move"], [], walks=16 if tier == "quick" else 200, walkseed=SEED)
    tcfg = tcfg.replace("INIT Init\nNEXT Next", "SPECIFICATION LSpec").replace("CONSTANTS\n", "CONSTANTS\n  Mark = 55\n  Policy = \"trade\"\n")
    at = vlib.tlc("ChessGameLong", tcfg, files={"roots.ndjson": roots_ndjson(surplus)}, workers=8, tag="trade-walk", timeout=3600)
    ck.add_tlc(at)
    res = chess_replay([at], ["C10"])
    ck.add_result(res)
    for k, v in res["counters"].items():
        cnt[k] = cnt.get(k, 0) + v
    ad = art_deep(tier)
    ck.add_tlc(ad)
    res = chess_replay([ad], ["C10"])
    ck.add_result(res)
    for k, v in res["counters"].items():
        cnt[k] = cnt.get(k, 0) + v
    ck.cov["counters"] = {}
    engine_games(ck, "C10", tier, {"repetition"})
    cnt.update(ck.cov["counters"])
    am = art_material()
    ck.add_tlc(am)
    run = vlib.scratch("mat")
    try:
        res = vlib.run_driver(["material", "-obs", vlib.art_out(am), "-out", os.path.join(run, "res.json")], cwd=run)
    finally:
        import shutil
        shutil.rmtree(run, ignore_errors=True)
    ck.add_result(res)
    for k, v in res["counters"].items():
        cnt[k] = cnt.get(k, 0) + v
    ck.cov["evaluations"] = cnt.get("C10.nodes", 0) + cnt.get("C10.configurations", 0)
    ck.cov["distinct_nontrivial"] = cnt.get("C10.nontrivial", 0)
    ck.cov["traces_validated_against_impl"] = cnt.get("nodes", 0)
    ck.cov["rule"] = ("repetition/clock: states of random walks (with their one-step fringe) from few-piece roots, incl. clocks 97-100; "
                      "non-trivial = states that occurred before (RepCount >= 1). material: all 7,056 material pairs x side to move "
                      "enumerated by Material.tla; non-trivial = configurations not decided by a pawn")
    ck.cov["counters"] = cnt
    ck.cov["material_classes"] = res.get("extra", {}).get("classes")
    return ck.finish()


# ------------------------------------------------------------------------------ search checks

def search_positions(tier, rng):
    """Positions (with their game history) taken from the TLC walk artefact."""
    art = shared(tier)["walk"]
    nodes = sl.load_nodes(art, want=lambda o: len(o["legal"]) > 0 and len(o["path"]) % 7 in (0, 3))
    normal = [n for n in nodes if n["rep"] < 2 and n["pos"]["hmc"] < 100]
    drawn = [n for n in nodes if n["rep"] >= 2 or n["pos"]["hmc"] >= 100]
    rng.shuffle(normal)
    rng.shuffle(drawn)
    # the root positions themselves (rich middlegames, corner cases)
    roots = sl.load_nodes(shared(tier)["tree"], want=lambda o: len(o["path"]) == 0 and len(o["legal"]) > 0)
    return art, normal, drawn, roots


def pv_item(rec, job):
    lines = [l for l in rec["infos"] if l] + ([rec["pv"]] if rec["pv"] else [])
    return {"k": "pv", "id": rec["id"], "pos": job["pos"], "best": rec["best"], "ponder": rec["ponder"],
            "lines": lines, "allowed": job["searchmoves"]}


def c05_discs(prop, recs, jobs, verdicts):
    """Turns records + TLC verdicts into discrepancies of C05."""
    byid = {j["id"]: j for j in jobs}
    out = []

    def d(kind, sig, rec, detail):
        j = byid[rec["id"]]
        out.append({"prop": prop, "kind": kind, "sig": sig, "fen": rec.get("fen") or sl.fen_of(j["pos"]),
                    "detail": detail, "replay": {"job": j}})
    for rec in recs:
        j = byid[rec["id"]]
        if rec["error"]:
            if rec["error"].startswith("SLOW") and j["mode"] == "depth":
                continue        # a fixed-depth search may take as long as it takes: counted, not judged
            kind = ("search-hangs" if rec["error"].startswith("HANG") else "search-does-not-stop" if rec["error"].startswith("SLOW")
                    else "search-crashes-the-engine" if rec["error"].startswith("CRASH") else "search-panics")
            d(kind, kind + "/" + j["mode"], rec, {"error": rec["error"], "tag": j["tag"], "cfg": j["cfg"]})
            continue
        v = verdicts[rec["id"]]
        if not v["hasLegal"]:
            continue
        if rec["results"] != 1:
            d("result-count", "result-count/%d" % rec["results"], rec, {"results": rec["results"], "mode": j["mode"]})
        if rec["best"] == -1:
            sig = "best-move/none"
            if rec["rep_root"]:
                sig += "/root-already-drawn-by-repetition-or-50-moves"
            d("no-best-move", sig, rec, {"mode": j["mode"], "tag": j["tag"]})
        elif not v["bestLegal"]:
            d("best-move-illegal", "best-move/illegal", rec, {"best": fenspec.mv_uci(rec["best"]), "tag": j["tag"], "cfg": j["cfg"]})
        if rec["ponder"] != -1 and not v["ponderLegal"]:
            d("ponder-move-illegal", "ponder/illegal", rec, {"best": fenspec.mv_uci(rec["best"]) if rec["best"] >= 0 else None,
                                                             "ponder": fenspec.mv_uci(rec["ponder"]), "tag": j["tag"], "cfg": j["cfg"]})
        if v["badLine"]:
            lines = [l for l in rec["infos"] if l] + ([rec["pv"]] if rec["pv"] else [])
            for (li, mi) in v["badLine"]:
                which = "final" if (rec["pv"] and li == len(lines)) else "info"
                d("pv-not-playable", "pv/illegal-move/" + which, rec,
                  {"line": [fenspec.mv_uci(m) for m in lines[li - 1]], "first_illegal_index": mi, "tag": j["tag"], "cfg": j["cfg"], "mode": j["mode"], "nodes": j["nodes"]})
        if rec["best"] != -1 and rec["pv"] and rec["pv"][0] != rec["best"]:
            d("pv-head", "pv/does-not-start-with-best-move", rec, {"best": fenspec.mv_uci(rec["best"]), "pv0": fenspec.mv_uci(rec["pv"][0])})
        if not rec["unchanged"]:
            d("position-modified", "position-modified", rec, {})
        if j["mode"] in ("infinite", "ponder") and rec["early_ms"] < -1.0:
            d("result-before-stop", "result-before-stop/" + j["mode"], rec, {"early_ms": rec["early_ms"]})
    return out


def check_C05(tier):
    ck = Check("C05", tier)
    quick = tier == "quick"
    rng = random.Random(SEED)
    art, normal, drawn, roots = search_positions(tier, rng)
    ck.add_tlc(art)
    jobs = []

    def add(node, mode, tag, **kw):
        jobs.append(sl.job(node, len(jobs) + 1, mode, tag, **kw))
    npos = 12 if quick else 120
    base = normal[:npos] + roots[:6 if quick else 40]
    for n in base:
        add(n, "depth", "modes", depth=3)
        add(n, "nodes", "modes", nodes=500)
        add(n, "movetime", "modes", movetime=40)
        add(n, "clock", "modes", time=400, inc=0)
        add(n, "clock", "modes", time=300, inc=50, movestogo=5)
        add(n, "infinite", "modes", stopafter=30, depth=4)
        add(n, "ponder", "modes", stopafter=30, time=400, depth=4)
        add(n, "ponderhit", "modes", stopafter=15, time=300)
    # feature switches
    cfgs = [{}, sl.cfg_all(False), {"UseQuiescence": False}]
    cfgs += [{name: not getattr_default(name)} for name in sl.ALLSW]
    for _ in range(6 if quick else 60):
        cfgs.append({name: rng.random() < 0.5 for name in sl.ALLSW})
    for n in (normal[npos:npos + (5 if quick else 40)] + roots[1:3]):
        for c in cfgs:
            add(n, "depth", "switches", depth=3, cfg=c)
    # stop moments: a node limit n is the same code path as a stop request arriving at node n
    for n in normal[npos + 5:npos + (8 if quick else 45)] + roots[1:2]:
        ns = list(range(1, 151 if quick else 3000)) + (list(range(151, 1500, 7)) if quick else [])
        for k in ns:
            add(n, "nodes", "stop-sweep", nodes=k, depth=4)
    # ... the same sweep on an engine that has just searched ANOTHER position (its buffers, tables and results are still there)
    for n in [x for x in normal[npos + 14:npos + 40] if x["path"]][:(3 if quick else 30)]:
        for k in list(range(1, 41 if quick else 400)):
            add(n, "nodes", "stop-sweep-dirty", nodes=k, depth=4, prefill="other")
    # leftovers of earlier searches in the hash table
    for n in normal[npos + 8:npos + (14 if quick else 60)] + roots[1:4]:
        for pre in ("other", "same", "deeper"):
            add(n, "depth", "prefill", depth=3, prefill=pre)
            add(n, "nodes", "prefill", nodes=300, prefill=pre)
    # the fifty-move rule inside the tree: middlegame positions set up with the half-move clock just below 100 and searched
    # deep enough for lines (and hash-table chains) to run into the draw
    for n in normal[npos + 40:npos + (46 if quick else 100)]:
        for hm in (94, 97, 99):
            pos = dict(n["pos"], hmc=hm)
            nn = {"pos": pos, "root": pos, "path": [], "kinds": []}
            for d in (4, 5, 6):
                add(nn, "depth", "near-fifty", depth=d)
    # roots that are already drawn by rule but have legal moves
    for n in drawn[:6 if quick else 60]:
        add(n, "depth", "drawn-root", depth=2)
        add(n, "movetime", "drawn-root", movetime=30)
    # the end of the LONGEST games the position command accepts (383 half moves; the engine's history array leaves room for the
    # search depth and nothing else): ChessGameLong.tla manoeuvres - reversible moves until the half-move clock is due, then a pawn
    # move or capture - so that the games are not drawn by the fifty-move rule; from a locked pawn wall that is a king shuffle whose
    # hash-table chains run in circles, from the initial position a long game with most of the material on the board
    FORT = "4k3/p1p1p1p1/8/p1p1p1p1/P1P1P1P1/8/P1P1P1P1/4K3 w - - 0 1"
    lcfg = game_cfg(383, 383, ["Move"], [], invariants=("TypeOK", "PosWellFormed", "NotFiftyMoveDrawn", "Obs"), walks=4 if quick else 24, walkseed=SEED)
    lcfg = lcfg.replace("INIT Init\nNEXT Next", "SPECIFICATION LSpec").replace("CONSTANTS\n", "CONSTANTS\n  Mark = 55\n  Policy = \"manoeuvre\"\n")
    la = vlib.tlc("ChessGameLong", lcfg, files={"roots.ndjson": roots_ndjson([FORT, START_FEN])}, workers=4, tag="long-walk", timeout=3600)
    ck.add_tlc(la)
    lnodes = sl.load_nodes(la, want=lambda o: len(o["legal"]) > 0 and (len(o["path"]) in (383, 382, 380, 377, 373) or (o["root"] == 2 and len(o["path"]) >= 200 and len(o["path"]) % 11 == 0)))
    for n in lnodes:
        for d in ((4, 6, 8) if n["rootidx"] == 1 else (3,)):
            add(n, "depth", "long-game", depth=d)
        add(n, "nodes", "long-game", nodes=3000)
    recs = sl.run_jobs(jobs, procs=12)
    byid = {j["id"]: j for j in jobs}
    items = [pv_item(r, byid[r["id"]]) for r in recs if not r["error"]]
    verdicts, st = sl.tlc_check(items)
    for dsc in c05_discs("C05", recs, jobs, verdicts):
        ck.discs.append(dsc)
        key = "C05|%s|%s" % (dsc["kind"], dsc["sig"])
        ck.disc_count[key] = ck.disc_count.get(key, 0) + 1
    if st:
        ck.cov["states"] += st["distinct_states"]
        ck.cov["transitions"] += st["states_generated"]
    ck.cov["evaluations"] = len(recs)
    ck.cov["distinct_nontrivial"] = len({(r["fen"], r["mode"], r["cfg"], byid[r["id"]]["nodes"], byid[r["id"]]["prefill"]) for r in recs
                                        if byid[r["id"]]["tag"] != "modes" or r["mode"] != "depth"})
    ck.cov["traces_validated_against_impl"] = len(items)
    ck.cov["rule"] = ("real searches over positions (with their game histories) taken from TLC walks: 8 limit modes, every single feature "
                      "switch flipped + seeded subsets, node limits 1..n as a deterministic sweep of the stop moment, hash table pre-filled by "
                      "other/shallower/deeper searches, roots already drawn by rule; every reported best move, ponder move and PV line is "
                      "validated as a behaviour of ChessGame by TLC (SearchCheck.tla); non-trivial = distinct (position, mode, switches, "
                      "node limit, prefill) other than the plain fixed-depth search")
    ck.cov["samples"] = [{"fen": r["fen"], "mode": r["mode"], "best": fenspec.mv_uci(r["best"]) if r["best"] >= 0 else None,
                          "pv": [fenspec.mv_uci(m) for m in r["pv"]], "info_lines": len(r["infos"])} for r in recs[:3]]
    ck.cov["jobs_by_family"] = {t: sum(1 for j in jobs if j["tag"] == t) for t in sorted({j["tag"] for j in jobs})}
    ck.cov["slow_fixed_depth_searches_not_judged"] = sum(1 for r in recs if (r["error"] or "").startswith("SLOW"))
    return ck.finish()


def check_C07(tier):
    ck = Check("C07", tier)
    quick = tier == "quick"
    rng = random.Random(SEED)
    art, normal, drawn, roots = search_positions(tier, rng)
    ck.add_tlc(art)
    jobs = []

    def add(node, mode, tag, **kw):
        jobs.append(sl.job(node, len(jobs) + 1, mode, tag, **kw))
    # every node of searches under the default configuration and combinations of the pruning switches
    combos = [{}]
    if quick:
        for _ in range(11):
            combos.append({n: rng.random() < 0.5 for n in sl.PRUNING})
        combos.append({n: False for n in sl.PRUNING})
    else:
        for m in range(128):
            combos.append({n: bool(m >> i & 1) for i, n in enumerate(sl.PRUNING)})
    pos = normal[:(24 if quick else 150)] + roots[:(10 if quick else 60)]
    for i, n in enumerate(pos):
        for ci, c in enumerate(combos):
            if quick and (i + ci) % 3:
                continue
            add(n, "depth", "pruning", depth=4 if quick else 5, cfg=c)
    # positions in which most pseudo-legal moves are illegal (pinned pieces with many moves) and only a few legal ones are left:
    # where a heuristic counts or skips moves BEFORE their legality is known, such a node looks like one without legal moves.
    # The specification's tree says where they are (|PseudoLegal| - |Legal| >= 7, not in check); they are searched as roots
    # and - so that they are interior, non-PV nodes with little depth left - from their parents and grandparents
    tree = shared(tier)["tree"]
    ck.add_tlc(tree)
    pinheavy, byk = [], {}
    for line in vlib.tlc_lines(tree):
        o = vlib.obs_json(line)
        byk[(o["root"], tuple(o["path"]))] = (len(o["pseudo"]) - len(o["legal"]), len(o["legal"]), o["inCheck"])
    hits = sorted(((v[0], -v[1], k) for k, v in byk.items() if v[0] >= 7 and v[1] > 0 and not v[2]), reverse=True)
    want_keys = []
    for _, _, k in hits[:(40 if quick else 400)]:
        for j in range(len(k[1]) + 1):
            if (k[0], k[1][:j]) not in want_keys:
                want_keys.append((k[0], k[1][:j]))
    wk = set(want_keys)
    pnodes = {(n["rootidx"], tuple(n["path"])): n for n in sl.load_nodes(tree, want=lambda o: (o["root"], tuple(o["path"])) in wk)}
    pcombos = [{}, {n: False for n in sl.PRUNING}] + [{n: (n == only) for n in sl.PRUNING} for only in ("UseLmp", "UseFP", "UseLmr")]
    for k in want_keys:
        n = pnodes.get(k)
        if n is None or not n["legal"] or n["pos"]["hmc"] > 90:
            continue
        for d in ((2, 3, 4) if quick else (2, 3, 4, 5, 6)):
            for c in pcombos:
                add(n, "depth", "pruning", depth=d, cfg=c)
    ck.cov["pin_heavy_nodes_in_tree"] = len(hits)
    # hand-made parents of such nodes (corpus/pins.fen): the side to move has a few quiet moves, after each of which the
    # opponent's rook / bishop / queen / knight is pinned with up to 14 illegal moves and only quiet king moves are legal
    for f in [l.strip() for l in open(os.path.join(VERIF, "corpus", "pins.fen")) if l.strip()]:
        pos = fenspec.fen_to_state(f)
        n = {"pos": pos, "root": pos, "path": [], "kinds": []}
        for d in (2, 3, 4, 5):
            for c in pcombos:
                add(n, "depth", "pruning", depth=d, cfg=c)
    # parents of nodes in which the side to move is in check by a pawn that has just made its double step and EVERY legal reply is
    # the en-passant capture of that pawn (EpOnlyEvasion.tla searches for them; ordinary game trees contain none): a search that
    # forgets the en-passant capture as an answer to check calls such a node checkmate
    epa = vlib.tlc("EpOnlyEvasion", "INIT Init\nNEXT Next\nINVARIANT Obs\nCHECK_DEADLOCK FALSE\n", workers=12, tag="ep-only", timeout=3600)
    ck.add_tlc(epa)
    eponly = []
    for l in vlib.tlc_lines(epa, '<<"EPONLY"'):
        d_ = json.loads(json.loads(l.rstrip("\r\n")[len('<<"EPONLY", '):-2]))
        eponly.append({"board": d_["board"], "stm": d_["stm"], "cr": [], "ep": -1, "hmc": 0, "fmn": 30})
    rng.shuffle(eponly)
    ck.cov["ep_only_evasion_parents"] = len(eponly)
    for pos in eponly[:(30 if quick else 600)]:
        n = {"pos": pos, "root": pos, "path": [], "kinds": []}
        for d in (2, 3, 4):
            for c in pcombos[:2]:
                add(n, "depth", "pruning", depth=d, cfg=c)
    # the fifty-move rule next to the mate rule: positions set up with the half-move clock at 97-99 - few-piece roots, where a
    # check is answered by quiet king moves only, and middlegame positions. A node in check ALL of whose replies run into the
    # draw by the clock has legal moves and is no checkmate (every reply is a move that was "searched", with value draw)
    for f in sparse_fens()[:(8 if quick else 40)] + [fenspec.state_to_fen(n["pos"]) for n in normal[24:(28 if quick else 60)]]:
        for hm in (97, 98, 99):
            pos = dict(fenspec.fen_to_state(f), hmc=hm)
            if pos["ep"] >= 0:
                continue
            n = {"pos": pos, "root": pos, "path": [], "kinds": []}
            for d in (2, 3):
                add(n, "depth", "pruning", depth=d, cfg={})
    # converse: roots without legal moves
    term = sl.load_nodes(tree, want=lambda o: len(o["legal"]) == 0)
    rng.shuffle(term)
    allnodes = {(n["rootidx"], tuple(n["path"])): n for n in sl.load_nodes(tree, want=lambda o: len(o["path"]) <= (1 if quick else 2))}
    for n in term[:(40 if quick else 400)]:
        add(n, "depth", "terminal-root", depth=2)
        add(n, "movetime", "terminal-root", movetime=20)
        # the same root with the fifty-move clock run out (set up from a FEN): no legal move comes first - mated stays mated
        for hmc in (100, 137):
            pos = dict(n["pos"], hmc=hmc)
            add({"pos": pos, "root": pos, "path": [], "kinds": []}, "depth", "terminal-root", depth=2)
        # ... and reached by play: the move that mates / stalemates is the hundredth half-move
        par = allnodes.get((n["rootidx"], tuple(n["path"][:-1]))) if n["path"] else None
        if par is not None and n["pos"]["hmc"] == par["pos"]["hmc"] + 1:
            ppos = dict(par["pos"], hmc=99)
            add({"pos": dict(n["pos"], hmc=100), "root": ppos, "path": n["path"][-1:], "kinds": n["kinds"][-1:]}, "depth", "terminal-root", depth=2)
    recs = sl.run_jobs(jobs, procs=12)
    byid = {j["id"]: j for j in jobs}
    # terminal classifications, de-duplicated by position and kind
    events = {}
    for r in recs:
        if r["error"] and r["error"].startswith(("SLOW", "CRASH")):
            continue        # (a search that brings the engine down is C05's business)
        if r["error"]:
            d = {"prop": "C07", "kind": "search-fails", "sig": "search-fails", "fen": r["fen"], "detail": r["error"], "replay": {"job": byid[r["id"]]}}
            ck.discs.append(d)
            ck.disc_count["C07|search-fails|search-fails"] = ck.disc_count.get("C07|search-fails|search-fails", 0) + 1
            continue
        for e in r["terminal"]:
            events.setdefault((e["fen"], e["mate"]), (e, r["id"]))
    items = []
    keys = list(events)
    for i, k in enumerate(keys):
        items.append({"k": "term", "id": i + 1, "pos": fenspec.fen_to_state(k[0]), "mate": k[1]})
    base = len(items)
    troot = [r for r in recs if byid[r["id"]]["tag"] == "terminal-root" and not r["error"]]
    for r in troot:
        items.append({"k": "root", "id": base + r["id"], "pos": byid[r["id"]]["pos"]})
    verdicts, st = sl.tlc_check(items)
    if st:
        ck.cov["states"] += st["distinct_states"]
        ck.cov["transitions"] += st["states_generated"]

    def disc(kind, sig, fen, detail, replay):
        ck.discs.append({"prop": "C07", "kind": kind, "sig": sig, "fen": fen, "detail": detail, "replay": replay})
        key = "C07|%s|%s" % (kind, sig)
        ck.disc_count[key] = ck.disc_count.get(key, 0) + 1
    nmate = nstale = 0
    for i, k in enumerate(keys):
        v = verdicts[i + 1]
        e, rid = events[k]
        nmate += k[1]
        nstale += not k[1]
        where = "qsearch" if e["qs"] else "search"
        if not v["noLegal"]:
            disc("scored-as-%s-with-legal-moves" % ("mate" if k[1] else "stalemate"),
                 "%s/%s-with-legal-moves" % (where, "mate" if k[1] else "stalemate"), k[0],
                 {"ply": e["ply"], "cfg": byid[rid]["cfg"]}, {"job": byid[rid], "node_fen": k[0]})
        elif v["inCheck"] != k[1]:
            disc("mate-stalemate-confused", "%s/kind" % where, k[0], {"scored_as_mate": k[1], "in_check": v["inCheck"]}, {"job": byid[rid]})
    for r in troot:
        v = verdicts[base + r["id"]]
        want = -10000 if v["inCheck"] else 0
        bad = []
        if r["value"] != want:
            bad.append("value %d, expected %d" % (r["value"], want))
        if r["best"] != -1:
            bad.append("best move %s reported" % fenspec.mv_uci(r["best"]))
        if v["inCheck"] and r["stat_mates"] < 1:
            bad.append("checkmate not counted")
        if not v["inCheck"] and r["stat_stalemates"] < 1:
            bad.append("stalemate not counted")
        if bad:
            disc("terminal-root", "terminal-root/" + ("mate" if v["inCheck"] else "stalemate"), r["fen"], bad, {"job": byid[r["id"]]})
    ck.cov["evaluations"] = len(recs)
    ck.cov["distinct_nontrivial"] = len(keys)
    ck.cov["traces_validated_against_impl"] = len(items)
    ck.cov["terminal_events"] = {"mate": nmate, "stalemate": nstale, "terminal_roots": len(troot)}
    ck.cov["rule"] = ("every mate/stalemate classification made by search and qsearch (hook) during depth-%d searches of walk positions under the "
                      "default configuration and %d combinations of the seven pruning switches, de-duplicated by position and kind, each "
                      "validated by TLC: Legal(pos) = {} and mate <=> InCheck; plus roots without legal moves; non-trivial = distinct "
                      "classified positions" % (4 if quick else 5, len(combos)))
    ck.cov["samples"] = [{"fen": k[0], "scored_as": "mate" if k[1] else "stalemate"} for k in keys[:4]] or ["no terminal node was reached"]
    return ck.finish()


def check_C13(tier):
    ck = Check("C13", tier)
    quick = tier == "quick"
    rng = random.Random(SEED)
    import shutil
    cnt = {}

    def disc(kind, sig, fen, detail, replay=None):
        ck.discs.append({"prop": "C13", "kind": kind, "sig": sig, "fen": fen, "detail": detail, "replay": replay or {}})
        key = "C13|%s|%s" % (kind, sig)
        ck.disc_count[key] = ck.disc_count.get(key, 0) + 1
    # ---- clock budget: TLC enumerates the grid, the driver plays the clock game with the engine's function,
    #      TLC validates the recorded games against TimeControl.tla
    times = [1, 5, 20, 100, 500, 2000, 10000, 60000, 600000, 7200000]
    incs = [0, 10, 1000, 10000, 60000]
    mtg = [0, 1, 2, 5, 40]
    if not quick:
        times += [3, 50, 250, 1000, 5000, 30000, 180000, 1800000]
        incs += [1, 100, 3000, 30000]
        mtg += [3, 10, 20, 80]

    def st(x):
        return "{" + ", ".join(map(str, x)) + "}"
    gcfg = ("INIT GridInit\nNEXT GridNext\nCONSTANTS\n  Times = %s\n  Incs = %s\n  MovesToGo = %s\n  Phases = {0, 12, 24}\n  Opps = {0, 1, 2}\n"
            '  NRand = 0\n  RandSeed = 0\n  TraceFile = "none"\nINVARIANT GridObs\nCHECK_DEADLOCK FALSE\n' % (st(times), st(incs), st(mtg)))
    ga = vlib.tlc("TimeControl", gcfg, workers=4, tag="tc-grid")
    ck.add_tlc(ga)
    # ... and pseudo-random points between the grid lines (narrow parameter regions: the factor switch at 100 ms, moves-to-go 1
    # with an increment larger than the clock, ...)
    rcfg = ("INIT RandInit\nNEXT GridNext\nCONSTANTS\n  Times = {}\n  Incs = {}\n  MovesToGo = {}\n  Phases = {}\n  Opps = {}\n"
            '  NRand = %d\n  RandSeed = %d\n  TraceFile = "none"\nINVARIANT GridObs\nCHECK_DEADLOCK FALSE\n' % (4000 if quick else 60000, SEED))
    ra = vlib.tlc("TimeControl", rcfg, workers=4, tag="tc-rand")
    ck.add_tlc(ra)
    run = vlib.scratch("tc")
    try:
        tf = os.path.join(run, "tc.ndjson")
        # -bookdir: the first move of every game (every 4th in the quick tier) is also searched by a real Search right after a real
        # book move (the repository's small sample book), stopped at once, and asked for the time it was ALLOWED to take
        shutil.copy(os.path.join(vlib.REPO, "assets", "books", "book_smalltest.txt"), run)    # (the book writes a cache file next to its source)
        vlib.run_driver(["timectl", "-grid", vlib.art_out(ga) + "," + vlib.art_out(ra), "-trace", tf,
                         "-bookdir", run, "-ext", 4 if quick else 1], cwd=run, timeout=3600)
        trace = open(tf).read()
    finally:
        shutil.rmtree(run, ignore_errors=True)
    lines = trace.splitlines()
    tcfg = ('INIT TraceInit\nNEXT TraceNext\nCONSTANTS\n  Times = {}\n  Incs = {}\n  MovesToGo = {}\n  Phases = {}\n  Opps = {}\n  NRand = 0\n  RandSeed = 0\n'
            '  TraceFile = "trace.ndjson"\nINVARIANT BadObs\nPOSTCONDITION TraceAccepted\nCHECK_DEADLOCK FALSE\n')
    ta = vlib.tlc("TimeControl", tcfg, files={"trace.ndjson": trace}, workers=1, tag="tc-trace", cache=False)
    tst = vlib.art_stats(ta)
    if tst.get("diameter", 0) - 1 != len(lines):
        raise Inconclusive("clock-game trace not consumed completely (%s of %d lines)" % (tst.get("diameter"), len(lines)))
    bad = []
    for l in vlib.tlc_lines(ta, '<<"BADSTEP"'):
        bad.append(int(l.split(",")[1].strip().rstrip(">\n")))
    shutil.rmtree(ta, ignore_errors=True)
    ck.cov["states"] += tst["distinct_states"]
    ck.cov["transitions"] += tst["states_generated"]
    games = sum(1 for l in lines if '"start"' in l)
    cnt["clock_games"] = games
    next_ = sum(1 for l in lines if '"ext"' in l)
    cnt["clock_moves"] = len(lines) - games - next_
    cnt["first_searches_after_a_book_move"] = next_
    for b in bad:
        ev = json.loads(lines[b - 1])
        if ev["ev"] == "ext":
            i = b - 1
            while json.loads(lines[i])["ev"] != "start":
                i -= 1
            start = json.loads(lines[i])
            disc("clock-budget", "clock-allotted/first-search-after-book-move-exceeds-remaining-time" + ("/increment>0" if start["inc"] > 0 else ""), "",
                 {"game": {k: start[k] for k in ("time", "inc", "movestogo", "phase", "stm", "opp")}, "remaining_ms": ev["rem"], "allotted_ms": ev["b"],
                  "note": "time limit + extra time of a real search started right after a real book move"},
                 {"trace": [json.loads(x) for x in lines[i:b]]})
            continue
        i = b - 1
        while json.loads(lines[i])["ev"] != "start":
            i -= 1
        start = json.loads(lines[i])
        nrep = ev["movestogo"] or 15
        sig = ("clock-budget/exceeds-remaining-time" if ev["b"] > ev["rem"] else
               "clock-budget/clock-runs-out" if ev["rem"] - ev["b"] + start["inc"] < 0 else
               "clock-budget/repeated-for-moves-to-go-does-not-fit")
        if ev["b"] > ev["rem"] and start["inc"] > 0:
            sig += "/increment>0"
        disc("clock-budget", sig, "", {"game": {k: start[k] for k in ("time", "inc", "movestogo", "phase", "stm", "opp")},
                                        "move": b - i, "remaining_ms": ev["rem"], "budget_ms": ev["b"]},
             {"trace": [json.loads(x) for x in lines[i:b]]})
    # ---- searches: depth, nodes, move time, searchmoves
    art, normal, drawn, roots = search_positions(tier, rng)
    jobs = []

    def add(node, mode, tag, **kw):
        jobs.append(sl.job(node, len(jobs) + 1, mode, tag, **kw))
    pos = normal[:(10 if quick else 80)] + roots[:(8 if quick else 60)]
    for n in pos:
        for d in (1, 2, 3, 4):
            add(n, "depth", "depth", depth=d)
        for k in (1, 50, 400, 3000):
            add(n, "nodes", "nodes", nodes=k)
        for _ in range(3 if quick else 10):
            sub = [m for m in n["legal"] if rng.random() < 0.3] or [rng.choice(n["legal"])]
            add(n, "depth", "searchmoves", depth=3, searchmoves=sub)
    for n in pos[:(6 if quick else 30)]:
        for t in (30, 60, 120, 250) + (() if quick else (500,)):
            add(n, "movetime", "movetime", movetime=t)
    # limits are per search: after a node-limited / time-limited / depth-1 / clock search on the SAME Search object (as the
    # protocol loop uses it) a depth-limited search completes its iterations, a node-limited one is bound by its own limit only
    for n in pos[:(8 if quick else 40)]:
        for pre in ("limit-nodes", "limit-movetime", "limit-depth", "limit-clock"):
            add(n, "depth", "depth", depth=4, prefill=pre)
            add(n, "nodes", "nodes", nodes=3000, prefill=pre)
    # real searches under the clock with a budget close to the clock itself (one move to go; an increment larger than the clock):
    # whatever the search adds to its budget while it runs (extra time), what it is allowed to take and what it takes stay within
    # the clock
    for n in pos:
        add(n, "clock", "clock", time=rng.choice([150, 200, 300]), movestogo=1)
        add(n, "clock", "clock", time=rng.choice([120, 250]), inc=rng.choice([2000, 10000]))
    # roots with a forced mate on the board (the specification's game tree says which: a child without legal moves, in check):
    # the depth limit counts there as everywhere else - a found mate is no licence to stop early
    tree = shared(tier)["tree"]
    tnodes = {(n["rootidx"], tuple(n["path"])): n for n in sl.load_nodes(tree, want=lambda o: len(o["path"]) <= 2)}
    mated = [k for k, n in tnodes.items() if not n["legal"] and n["inCheck"] and k[1]]
    m1 = sorted({(k[0], k[1][:-1]) for k in mated})                                     # the mover mates in one
    m2 = sorted({(k[0], k[1][:-2]) for k in mated if len(k[1]) == 2                    # ... is mated in two plies whatever it plays
                 and all((k[0], k[1][:-2] + (m,)) in set(m1) for m in tnodes[(k[0], k[1][:-2])]["legal"])})
    rng.shuffle(m1)
    rng.shuffle(m2)
    nm = 0
    for k in m1[:(10 if quick else 80)] + m2[:(6 if quick else 40)]:
        n = tnodes[k]
        if len(n["legal"]) < 2 or n["pos"]["hmc"] > 80:
            continue
        nm += 1
        for d in (3, 5):
            add(n, "depth", "depth", depth=d)
    recs = sl.run_jobs(jobs, procs=6)     # fewer processes: wall-clock clauses are measured here
    byid = {j["id"]: j for j in jobs}
    items = [{"k": "root", "id": r["id"], "pos": byid[r["id"]]["pos"]} for r in recs if not r["error"] and byid[r["id"]]["tag"] == "depth"]
    items += [pv_item(r, byid[r["id"]]) for r in recs if not r["error"] and byid[r["id"]]["tag"] == "searchmoves"]
    verdicts, st2 = sl.tlc_check(items)
    if st2:
        ck.cov["states"] += st2["distinct_states"]
        ck.cov["transitions"] += st2["states_generated"]
    slow = []
    for r in recs:
        j = byid[r["id"]]
        if r["error"] and ((r["error"].startswith("SLOW") and j["mode"] == "depth") or r["error"].startswith("CRASH")):
            continue
        if r["error"]:
            disc("search-fails", "search-fails", r["fen"], r["error"], {"job": j})
            continue
        cnt[j["tag"]] = cnt.get(j["tag"], 0) + 1
        if j["tag"] == "depth":
            v = verdicts[r["id"]]
            if v["nLegal"] >= 2 and not r["rep_root"] and r["depth"] != j["depth"]:
                disc("depth-limit", "depth/iterations", r["fen"], {"asked": j["depth"], "completed": r["depth"]}, {"job": j})
        elif j["tag"] == "nodes":
            if r["nodes"] > j["nodes"] + 300:
                disc("node-limit", "nodes/overshoot", r["fen"], {"limit": j["nodes"], "visited": r["nodes"]}, {"job": j})
        elif j["tag"] == "searchmoves":
            v = verdicts[r["id"]]
            if not v["allowedOk"]:
                disc("searchmoves", "searchmoves/best-move-not-in-list", r["fen"],
                     {"searchmoves": [fenspec.mv_uci(m) for m in j["searchmoves"]], "best": fenspec.mv_uci(r["best"])}, {"job": j})
        elif j["tag"] == "movetime":
            if r["elapsed_ms"] > j["movetime"] + 250:
                slow.append(j)
        elif j["tag"] == "clock":
            if r["allotted_ms"] > j["time"]:
                disc("clock-budget", "clock-allotted/exceeds-remaining-time-during-search", r["fen"],
                     {"clock_ms": j["time"], "inc": j["inc"], "movestogo": j["movestogo"], "allotted_ms": r["allotted_ms"], "elapsed_ms": r["elapsed_ms"]}, {"job": j})
            elif r["elapsed_ms"] > j["time"] + 250:
                slow.append(j)
    # a slow measurement is repeated twice (alone) before it counts
    for j in slow:
        again = [sl.run_jobs([j], procs=1)[0]["elapsed_ms"] for _ in range(2)]
        if j["tag"] == "clock":
            if min(again) > j["time"] + 250:
                disc("clock-budget", "clock/late", sl.fen_of(j["pos"]), {"clock_ms": j["time"], "elapsed_ms": again}, {"job": j})
            continue
        if min(again) > j["movetime"] + 250:
            disc("move-time", "movetime/late", sl.fen_of(j["pos"]), {"movetime": j["movetime"], "elapsed_ms": again}, {"job": j})
    ck.cov["evaluations"] = len(recs) + cnt["clock_moves"]
    ck.cov["distinct_nontrivial"] = games + len(recs)
    ck.cov["traces_validated_against_impl"] = games + len(items)
    ck.cov["counters"] = cnt
    ck.cov["rule"] = ("clock budget: every point of the grid remaining time x increment x moves-to-go x game phase x side (enumerated by TLC) is "
                      "played as a clock game with the engine's budget function and validated against TimeControl.tla (budget <= remaining, "
                      "clock never negative); searches: depth 1-4, node limits, seeded searchmoves subsets (best move checked by TLC), move "
                      "times with 250 ms allowance; the first search after a real book move (every game of the grid) and real clock-controlled searches with a "
                      "budget close to the clock: time limit + extra time never above the clock; non-trivial = all games and searches")
    ck.cov["samples"] = [json.loads(x) for x in lines[16:20]]
    ck.assumptions += ["move-time allowance 250 ms, a late answer is re-measured twice alone", "node overshoot allowance 300 nodes"]
    return ck.finish()


PHASE_VAL = {3: 1, 4: 1, 5: 2, 6: 4}


def raw_phase(board):
    return sum(PHASE_VAL.get(pc % 8, 0) for pc in board if pc)


def sound_cfg(bits, quiescence):
    cfg = {n: False for n in sl.ALLSW}
    cfg["UsePromNonQuiet"] = True
    for i, n in enumerate(sl.SOUND):
        cfg[n] = bool(bits >> i & 1)
    if cfg["UseTT"]:
        cfg["UseTTMove"] = True          # the hash table is used for move ordering only
    if quiescence:
        cfg.update({"UseQuiescence": True, "UseQSStandpat": True, "UseSEE": True})
        cfg["UseQSTT"] = cfg["UseTT"]    # ... in the quiescence search as well (UseTTValue stays off: no cut-offs from it)
    return cfg


def check_C06(tier):
    ck = Check("C06", tier)
    quick = tier == "quick"
    rng = random.Random(SEED)
    import shutil
    fens = root_fens()
    # game trees with empty history: the tree artefact (depth 2 for all roots) and a deeper one for sparse roots
    arts = [(shared(tier)["tree"], [1, 2])] + [(a3, [1, 3]) for a3 in shared(tier).get("tree3", [])]
    sampled = {a_ for a_, _ in arts}
    sparse = [f for f in sparse_fens() if int(f.split()[4]) <= 90][:(6 if quick else 16)]
    # depth 4 is the first depth at which a null-window result that is only a bound can be mistaken for a value
    arts.append((art_tree(sparse, 4, [], "mm-sparse", timeout=4 * 3600), [3, 4]))
    # the fifty-move rule inside the tree: few-piece roots that can still castle, with the clock at 97..99 - every kind of move
    # (castling included, which does not reset the clock) can be the hundredth half move at every ply of a depth-3 tree.
    # (No forced mate is near in these rook endings, so the one case in which the engine's order of terminal tests differs
    # from the Laws - a mating hundredth half move - stays out of the picture, Appendix E.7.)
    clocked = []
    for f in sparse_fens():
        fl = f.split()
        if fl[2] != "-" and fl[3] == "-":
            for hm in (97, 98, 99):
                clocked.append(" ".join(fl[:4] + [str(hm), "60"]))
    clock_art = art_tree(clocked[:(12 if quick else 60)], 3, [], "mm-clock", timeout=4 * 3600)
    arts.append((clock_art, [1, 2, 3]))
    items, jobs = [], []
    drift = {}
    for art, depths in arts:
        ck.add_tlc(art)
        nodes = {}
        roots = [json.loads(l) for l in open(os.path.join(art, "roots.ndjson"))]
        for line in vlib.tlc_lines(art):
            o = vlib.obs_json(line)
            nodes[(o["root"], tuple(o["path"]))] = o
        maxd = max(depths)
        rootids = sorted({k[0] for k in nodes})
        if art in sampled:
            # sample of roots: not terminal, clock <= 90
            cand = [r for r in rootids if nodes[(r, ())]["legal"] and roots[r - 1]["hmc"] <= 90]
            rng.shuffle(cand)
            rootids = cand[:(20 if quick else 140 if art is arts[0][0] else 5)]
        # leaf values from the engine's evaluator (fresh position from FEN)
        leaves = [(k, o) for k, o in nodes.items() if k[0] in rootids and len(k[1]) in depths]
        run = vlib.scratch("leaf")
        try:
            inp = os.path.join(run, "in.ndjson")
            with open(inp, "w") as fh:
                for i, (k, o) in enumerate(leaves):
                    pos = {x: o[x] for x in ("board", "stm", "ep", "hmc", "fmn")}
                    pos["cr"] = [c for c in "KQkq" if c in o["cr"]]
                    fh.write(json.dumps({"id": i, "pos": pos}) + "\n")
            outp = os.path.join(run, "out.ndjson")
            vlib.run_driver(["leaf-eval", "-in", inp, "-out", outp], cwd=run, load=False)
            vals = {}
            for l in open(outp):
                r = json.loads(l)
                vals[leaves[r["id"]][0]] = r["v"]
        finally:
            shutil.rmtree(run, ignore_errors=True)

        def subtree(r, path, d):
            if d == 0:
                return vals[(r, path)]
            o = nodes[(r, path)]
            return {str(m): subtree(r, path + (m,), d - 1) for m in o["legal"]}
        for r in rootids:
            o = nodes[(r, ())]
            if not o["legal"] or (roots[r - 1]["hmc"] > 90 and art is not clock_art):
                continue
            pos = roots[r - 1]
            node = {"pos": pos, "root": pos, "path": [], "kinds": [], "legal": o["legal"]}
            for d in depths:
                iid = len(items) + 1
                items.append({"id": iid, "pos": pos, "d": d, "tree": subtree(r, (), d)})
                drift[iid] = any(raw_phase(nodes[k]["board"]) > 24 for k in nodes if k[0] == r and len(k[1]) <= d)
                combos = list(range(128)) if not quick else sorted(rng.sample(range(128), 14) + [0, 127])
                for bits in combos:
                    jobs.append(sl.job(node, len(jobs) + 1, "depth", "exact:%d:%d" % (iid, bits), depth=d,
                                       cfg=sound_cfg(bits, False), iiddepth=2))
                if d == max(depths):
                    for bits in combos:
                        jobs.append(sl.job(node, len(jobs) + 1, "depth", "qs:%d:%d" % (iid, bits), depth=d,
                                           cfg=sound_cfg(bits, True), iiddepth=2))
    # quiescence clause on middlegame positions with their game histories (TLC walks), and with a DIRTY hash table: the table
    # is filled by a deeper search of the same position first, so that positions which are quiescence nodes now carry the
    # best moves of full-width nodes - used for move ordering only, that must not change the value either
    qmeta = {}
    wart, wnormal, _, _ = search_positions(tier, rng)
    ck.add_tlc(wart)
    qpos = [n for n in wnormal if n["pos"]["hmc"] <= 60 and n["rep"] == 0 and len(n["legal"]) >= 2][:(16 if quick else 240)]
    for k, n in enumerate(qpos):
        qid = 100000 + k
        qd = 3
        qmeta[qid] = {"pos": n["pos"], "d": qd}
        for bits in ([0, 1, 64, 127] if quick else [0, 1, 2, 4, 8, 16, 32, 64, 65, 80, 96, 127]):
            jobs.append(sl.job(n, len(jobs) + 1, "depth", "qs:%d:%d" % (qid, bits), depth=qd, cfg=sound_cfg(bits, True), iiddepth=2))
        for bits in ([64, 127] if quick else [64, 65, 80, 127]):
            jobs.append(sl.job(n, len(jobs) + 1, "depth", "qs:%d:%d" % (qid, bits + 1000), depth=qd, cfg=sound_cfg(bits, True), iiddepth=2,
                               prefill="deeper"))
    # deeper than TLC's minimax trees reach: on sparse roots the plain alpha-beta search (every switch off - validated against
    # Minimax above at depths 1-4) is the reference for the other combinations at depths 5 and 6
    dmeta = {}
    dsparse = [f for f in sparse_fens() if int(f.split()[4]) <= 80][:(10 if quick else 48)]
    for k, f in enumerate(dsparse):
        pos = fenspec.fen_to_state(f)
        node = {"pos": pos, "root": pos, "path": [], "kinds": [], "legal": []}
        for d in ((5,) if quick else (5, 6)):
            did = 200000 + 10 * k + d
            dmeta[did] = {"pos": pos, "d": d}
            for bits in ([0, 1, 2, 16, 32, 64, 127] + [rng.randrange(128)] if quick else [0] + sorted(rng.sample(range(1, 128), 31))):
                jobs.append(sl.job(node, len(jobs) + 1, "depth", "deep:%d:%d" % (did, bits), depth=d, cfg=sound_cfg(bits, False), iiddepth=2))
    # expected values: TLC evaluates Minimax
    cfg = 'INIT Init\nNEXT Next\nCONSTANTS\n  ItemsFile = "items.ndjson"\n  Chunks = 64\nINVARIANT Out\nCHECK_DEADLOCK FALSE\n'
    txt = "".join(json.dumps(i, separators=(",", ":")) + "\n" for i in items)
    a = vlib.tlc("SearchValue", cfg, files={"items.ndjson": txt}, workers=16, tag="minimax", timeout=4 * 3600, heap="16g")
    ck.add_tlc(a)
    mm = {}
    for line in vlib.tlc_lines(a, '<<"MMV"'):
        v = json.loads(json.loads(line.rstrip()[len('<<"MMV", '):-2]))
        mm[v["id"]] = v
    if len(mm) != len(items):
        raise Inconclusive("Minimax answers: %d of %d" % (len(mm), len(items)))
    byd1 = {}
    for it in items:
        byd1[(json.dumps(it["pos"], sort_keys=True), it["d"])] = it["id"]
    recs = sl.run_jobs(jobs, procs=12)
    byid = {j["id"]: j for j in jobs}

    def disc(kind, sig, fen, detail, job):
        ck.discs.append({"prop": "C06", "kind": kind, "sig": sig, "fen": fen, "detail": detail, "replay": {"job": job}})
        key = "C06|%s|%s" % (kind, sig)
        ck.disc_count[key] = ck.disc_count.get(key, 0) + 1
    qsvals = {}
    deepvals = {}
    clamped = set()      # searches during which a game-phase sum above the maximum was cut down (hook): the known drift may act
    ncmp = 0
    for r in recs:
        j = byid[r["id"]]
        kind, iid, bits = j["tag"].split(":")
        iid, bits = int(iid), int(bits)
        if r["error"] and r["error"].startswith(("SLOW", "CRASH")):
            continue
        if r["error"]:
            disc("search-fails", "search-fails", r["fen"], r["error"], j)
            continue
        if kind == "deep":
            deepvals.setdefault(iid, {}).setdefault(r["value"], []).append(bits)
            if r.get("phase_clamps", 0) > 0 or r.get("phase_drifted_root"):
                clamped.add(iid)
            continue
        if kind == "qs":
            qsvals.setdefault(iid, {}).setdefault(r["value"], []).append(bits)
            if r.get("phase_clamps", 0) > 0 or r.get("phase_drifted_root"):
                clamped.add(iid)
            continue
        want = mm[iid]
        if kind == "exact":
            if want["nLegal"] == 1 and j["depth"] > 1:
                # a single legal move is answered after the first iteration
                want = mm[byd1[(json.dumps(j["pos"], sort_keys=True), 1)]]
            ncmp += 1
            tag = "/game-phase-drift-possible" if drift[iid] else ""
            on = [n for i, n in enumerate(sl.SOUND) if bits >> i & 1]
            if r["value"] != want["value"]:
                disc("value-not-minimax", "minimax/value" + tag, r["fen"],
                     {"depth": j["depth"], "engine": r["value"], "minimax": want["value"], "switches_on": on}, j)
            elif r["best"] not in want["bestMoves"]:
                disc("best-move-does-not-attain-value", "minimax/best-move" + tag, r["fen"],
                     {"depth": j["depth"], "best": fenspec.mv_uci(r["best"]), "value": r["value"],
                      "moves_attaining": [fenspec.mv_uci(m) for m in want["bestMoves"]], "switches_on": on}, j)
    for did, byval in deepvals.items():
        ncmp += 1
        ref = [v for v, bs in byval.items() if 0 in bs]
        if len(byval) > 1 and ref:
            it = dmeta[did]
            disc("value-not-minimax", "minimax/deep" + ("/game-phase-drift-possible" if did in clamped else ""), sl.fen_of(it["pos"]),
                 {"depth": it["d"], "plain_alpha_beta": ref[0],
                  "others": {str(v): [[n for i, n in enumerate(sl.SOUND) if b >> i & 1] for b in bs[:3]] for v, bs in byval.items() if v != ref[0]}}, None)
    for iid, byval in qsvals.items():
        ncmp += 1
        if len(byval) > 1:
            it = qmeta[iid] if iid in qmeta else items[iid - 1]
            dr = (iid in clamped) or drift.get(iid, False)
            disc("quiescence-value-depends-on-sound-switches", "qs/value-differs" + ("/game-phase-drift-possible" if dr else ""),
                 sl.fen_of(it["pos"]), {"depth": it["d"], "values": {str(v): [([n for i, n in enumerate(sl.SOUND) if (b % 1000) >> i & 1]
                                                                             + (["hash table pre-filled by a deeper search"] if b >= 1000 else []))
                                                                            for b in bs[:3]] for v, bs in byval.items()}}, None)
    ck.cov["evaluations"] = len(recs)
    ck.cov["distinct_nontrivial"] = len(items)
    ck.cov["traces_validated_against_impl"] = ncmp
    ck.cov["rule"] = ("(root, depth) pairs with empty game history: the tree and the scoring rules come from the specification, the leaf numbers "
                      "from the engine's evaluator (fresh position per leaf), TLC evaluates Minimax (SearchValue.tla); the engine searches each "
                      "pair under %d combinations of the seven sound switches (unsound ones and quiescence off) and must return the minimax "
                      "value with a move attaining it; with quiescence on the value must agree across the combinations; non-trivial = "
                      "distinct (root, depth) pairs" % (128 if not quick else 16))
    ck.cov["samples"] = [{"fen": sl.fen_of(items[i - 1]["pos"]), "depth": mm[i]["d"], "minimax_value": mm[i]["value"],
                          "moves_attaining": [fenspec.mv_uci(m) for m in mm[i]["bestMoves"]]} for i in list(mm)[:4]]
    ck.assumptions.append("roots have a half-move clock <= 90 and an empty history (Appendix E.7)")
    return ck.finish()


START_FEN = "rnbqkbnr/pppppppp/8/8/8/8/PPPPPPPP/RNBQKBNR w KQkq - 0 1"
MATED_FEN = "rnb1kbnr/pppp1ppp/8/4p3/6Pq/5P2/PPPPP2P/RNBQKBNR w KQkq - 1 3"       # no legal move: the search ends at once
ONEMOVE_FEN = "7k/8/8/8/8/8/5q2/7K w - - 0 1"                                      # hmm: replaced below by a real single-move position
KIWI_FEN = "r3k2r/p1ppqpb1/bn2pnp1/3PN3/1p2P3/2N2Q1p/PPPBBPPP/R3K2R w KQkq - 0 1"


def life_scripts(tier, rng):
    S = START_FEN

    def st(mode, fen=S, depth=0, ms=0):
        return {"op": "start", "mode": mode, "fen": fen, "depth": depth, "ms": ms}
    sl_ = lambda ms: {"op": "sleep", "ms": ms}   # noqa: E731
    stop, wait, iss, hit, ng = {"op": "stop"}, {"op": "wait"}, {"op": "issearching"}, {"op": "ponderhit"}, {"op": "newgame"}
    named = [
        ("start-while-running", [st("inf"), sl_(10), st("depth", depth=2), iss, stop]),
        ("start-while-running-finished-inf", [st("inf", depth=1), sl_(20), st("depth", depth=2), sl_(20), stop]),
        ("stale-timer-then-infinite", [st("time", fen=MATED_FEN, ms=60), st("inf"), sl_(40), iss, stop]),
        ("stale-timer-then-ponder", [st("time", fen=MATED_FEN, ms=60), st("ponder", ms=400), sl_(40), iss, stop]),
        ("stopped-timer-then-infinite", [st("time", ms=10000), sl_(50), stop, st("inf"), sl_(60), iss, stop]),
        ("go-right-after-result", [st("depth", depth=1), wait, st("depth", depth=1), wait, st("depth", depth=2), wait]),
        ("stop-then-go", [st("inf"), sl_(10), stop, st("depth", depth=2), wait]),
        ("ponderhit", [st("ponder", ms=300), sl_(10), hit, wait]),
        ("ponderhit-not-pondering", [st("depth", depth=3), hit, wait, hit]),
        ("newgame-while-searching", [st("inf"), sl_(5), ng, st("depth", depth=1), wait]),
        ("time-then-time", [st("time", ms=40), wait, st("time", ms=40), wait]),
        ("stop-idle", [stop, iss, st("depth", depth=1), wait, stop]),
        ("housekeeping-while-searching", [st("inf"), {"op": "isready"}, {"op": "clearhash"}, {"op": "resize"}, iss, stop]),
        ("resize-refused-then-isready", [st("inf"), sl_(5), {"op": "resize"}, {"op": "isready"}, sl_(10), {"op": "isready"}, iss, stop,
                                         st("depth", depth=2), wait]),
        ("resize-refused-then-isready-ponder", [st("ponder", ms=300), {"op": "resize"}, {"op": "isready"}, hit, wait]),
    ]
    scripts = []
    for name, calls in named:
        for jit in ((0, 300) if tier == "quick" else (0, 100, 300, 1000, 3000)):
            scripts.append({"id": len(scripts) + 1, "name": name, "calls": calls, "jitter": jit, "procs": 0})
        # one processor: a spawned timer goroutine starts late, typically after its (short) search has ended
        for rep in range(3 if tier == "quick" else 12):
            scripts.append({"id": len(scripts) + 1, "name": name, "calls": calls, "jitter": 0 if rep % 3 else 200, "procs": 1})
    # random controller scripts
    n = 40 if tier == "quick" else 1500
    for _ in range(n):
        # maybe: the modes of the searches that MAY be running now. A start issued while an earlier depth / time search
        # may or may not have ended is accepted or rejected depending on timing, so either search may be the one running;
        # 'wait' is a legal script step only when every candidate ends by itself (waiting for an infinite or an unhit
        # ponder search blocks by design - seed 3 produced 'depth, ponder, wait', reported as a hang: a false alarm of
        # the generator, which used to remember only the first start)
        calls, maybe = [], set()
        for _ in range(rng.randint(3, 7)):
            r = rng.random()
            if r < 0.45:
                mode = rng.choice(["depth", "time", "inf", "ponder"])
                fen = rng.choice([S, S, KIWI_FEN, MATED_FEN])
                calls.append(st(mode, fen=fen, depth=rng.choice([0, 1, 2, 3]) if mode != "depth" else rng.choice([1, 2, 3]),
                                ms=rng.choice([30, 60]) if mode == "time" else 300))
                if not (len(maybe) == 1 and maybe <= {"inf", "ponder"}):   # certainly rejected only then
                    maybe.add(mode)
            elif r < 0.65:
                calls.append(stop)
                maybe = set()
            elif r < 0.72 and maybe and maybe <= {"depth", "time"}:
                calls.append(wait)
                maybe = set()
            elif r < 0.80:
                calls.append(iss)
            elif r < 0.86:
                calls.append(hit)
                if "ponder" in maybe:
                    maybe = (maybe - {"ponder"}) | {"time"}
            elif r < 0.90:
                calls.append(ng)
                maybe = set()
            elif r < 0.94:
                calls.append(rng.choice([{"op": "isready"}, {"op": "clearhash"}, {"op": "resize"}]))
            else:
                calls.append(sl_(rng.choice([1, 4, 6, 12, 30])))
        scripts.append({"id": len(scripts) + 1, "name": "random", "calls": calls, "jitter": rng.choice([0, 0, 200, 1000, 3000]),
                        "procs": rng.choice([0, 0, 1])})
    return scripts


def uci_race_scripts(tier, rng):
    """UCI sessions for the race detector (C14, protocol front): protocol-valid sessions in which the loop writes while a search
    writes, and sessions with the perft command (not part of UCI, but started and stopped by the same loop)."""
    S = ul.send
    pre = [S("uci"), ul.wait("uciok", 5000), S("setoption name Hash value 8"), S("setoption name Use_Book value false"), ul.sync(8000)]
    out = []

    def add(name, steps):
        out.append({"id": len(out) + 1, "name": name, "steps": pre + steps + [ul.sync(8000)]})
    for rep in range(2 if tier == "quick" else 12):
        j = lambda: ul.sleep(rng.choice([0, 1, 3, 8, 20]))   # noqa: E731
        add("isready-while-infinite", [S("position startpos"), S("go infinite")] + [x for _ in range(5) for x in (j(), ul.sync(8000))] + [S("stop"), ul.wait("bestmove", 8000)])
        add("isready-while-depth", [S("position startpos moves e2e4 e7e5"), S("go depth 5"), j(), ul.sync(8000), j(), ul.sync(8000), ul.wait("bestmove", 60000)])
        add("ponderhit", [S("position startpos moves e2e4"), S("go ponder wtime 1500 btime 1500"), j(), ul.sync(8000), S("ponderhit"), ul.sync(8000), ul.wait("bestmove", 20000)])
        add("go-after-bestmove", [S("position startpos"), S("go depth 3"), ul.wait("bestmove", 30000), S("ucinewgame"), S("position startpos moves d2d4"),
                                  S("go depth 3"), ul.wait("bestmove", 30000)])
        add("stop-against-timer", [S("position startpos"), S("go movetime 60"), ul.sleep(rng.choice([50, 55, 58, 60, 62, 66])), S("stop"), ul.wait("bestmove", 8000)])
        add("perft-stop", [S("perft 5"), ul.sleep(rng.choice([0, 5, 50, 200])), S("stop"), ul.sync(8000), ul.sleep(300)])
        add("perft-finishes-then-stop", [S("perft 2"), ul.sleep(1500), S("stop"), ul.sync(8000)])
        add("perft-twice", [S("perft 4"), j(), S("perft 4"), ul.sleep(400), S("stop"), ul.sync(8000), ul.sleep(300)])
        add("perft-and-search", [S("perft 5"), S("position startpos"), S("go depth 3"), ul.wait("bestmove", 60000), S("stop"), ul.sync(8000), ul.sleep(300)])
        add("perft-stop-perft", [S("perft 5"), ul.sleep(30), S("stop"), j(), S("perft 3"), ul.sleep(1500), S("stop"), ul.sync(8000)])
    return out


def run_life(scripts, race=False, watchdog=3000, cmd="life-run", procs=8, extra=()):
    """Runs lifecycle scripts in driver processes (a hang abandons the process; the rest is re-run)."""
    import shutil
    import subprocess
    run = vlib.scratch("life")
    drv = vlib.driver(race=race)
    out = []
    racelog = os.path.join(run, "race")
    try:
        sf = os.path.join(run, "scripts.ndjson")
        parts = [scripts[i::procs] for i in range(procs)]
        jobs = []
        for k, part in enumerate(parts):
            if not part:
                continue
            pf = os.path.join(run, "s%d.ndjson" % k)
            with open(pf, "w") as fh:
                for s_ in part:
                    fh.write(json.dumps(s_) + "\n")
            jobs.append({"pf": pf, "rf": os.path.join(run, "r%d.ndjson" % k), "n": len(part), "ids": [s_["id"] for s_ in part]})
        env = dict(os.environ)
        if race:
            env["GORACE"] = "log_path=%s halt_on_error=0 exitcode=0" % racelog
        pending = []
        crashes = [0]
        for j in jobs:
            j["ef"] = j["rf"] + ".err"
            j["p"] = subprocess.Popen([drv, cmd, "-scripts", j["pf"], "-out", j["rf"], "-seed", str(SEED), "-watchdog", str(watchdog)] + list(extra),
                                      cwd=run, stdout=subprocess.DEVNULL, stderr=open(j["ef"], "w"), env=env)
            pending.append(j)
        import time as _t
        t0 = _t.time()
        while pending:
            _t.sleep(0.1)
            if _t.time() - t0 > 1800:
                raise Inconclusive("lifecycle runs timed out")
            for j in list(pending):
                rc = j["p"].poll()
                if rc is None:
                    continue
                done = [json.loads(l) for l in open(j["rf"])] if os.path.exists(j["rf"]) else []
                if rc == 3 and len(done) < j["n"]:
                    # abandoned after a hang: continue with the scripts not yet run
                    rest = [s_ for s_ in (json.loads(l) for l in open(j["pf"])) if s_["id"] not in {d["id"] for d in done}]
                    with open(j["pf"], "w") as fh:
                        for s_ in rest:
                            fh.write(json.dumps(s_) + "\n")
                    j["p"] = subprocess.Popen([drv, cmd, "-scripts", j["pf"], "-out", j["rf"], "-seed", str(SEED), "-watchdog", str(watchdog)] + list(extra),
                                              cwd=run, stdout=subprocess.DEVNULL, stderr=open(j["ef"], "a"), env=env)
                elif rc in (0, 3):
                    pending.remove(j)
                else:
                    # the process died: a panic on a search / timer goroutine cannot be recovered by the driver. When the dying
                    # goroutine was inside the engine this is the observation for the script that was running; the rest goes on
                    err = open(j["ef"], errors="replace").read() if os.path.exists(j["ef"]) else ""
                    at = max(err.rfind("\npanic: "), err.rfind("\nfatal error: "))      # the report of the LAST death, from its first line on
                    err = err[at + 1:] if at >= 0 else err[-8000:]
                    first = err.split("goroutine ", 2)[1] if "goroutine " in err else ""
                    rest = [s_ for s_ in (json.loads(l) for l in open(j["pf"])) if s_["id"] not in {d["id"] for d in done}]
                    crashes[0] += 1
                    if not rest or "/internal/" not in first or "WARNING: DATA RACE" in first or crashes[0] > 300:
                        raise Inconclusive("%s died rc=%s: %s" % (cmd, rc, err[-300:]))
                    what = ([l for l in err.splitlines() if l.startswith(("panic:", "fatal error:"))] or ["?"])[0][:300]
                    frames = [l.strip() for l in first.splitlines() if "/internal/" in l][:4]
                    with open(j["rf"], "a") as fh:
                        fh.write(json.dumps({"id": rest[0]["id"], "name": rest[0].get("name", ""), "events": [], "hang": "", "results": 0, "accepted": 0,
                                             "steps": len(rest[0].get("steps", [])), "matched": 0, "diverged": None, "early": [], "stuck": [],
                                             "panic": "CRASH: the engine brought the process down: %s @ %s" % (what, " | ".join(frames))}) + "\n")
                    with open(j["pf"], "w") as fh:
                        for s_ in rest[1:]:
                            fh.write(json.dumps(s_) + "\n")
                    if rest[1:]:
                        j["p"] = subprocess.Popen([drv, cmd, "-scripts", j["pf"], "-out", j["rf"], "-seed", str(SEED), "-watchdog", str(watchdog)] + list(extra),
                                                  cwd=run, stdout=subprocess.DEVNULL, stderr=open(j["ef"], "a"), env=env)
                    else:
                        pending.remove(j)
        for j in jobs:
            if os.path.exists(j["rf"]):
                out += [json.loads(l) for l in open(j["rf"])]
        races = ""
        import glob as _g
        for f in _g.glob(racelog + ".*"):
            races += open(f, errors="replace").read()
        return out, races
    finally:
        shutil.rmtree(run, ignore_errors=True)


GATE_CFG = ('SPECIFICATION GSpec\nCONSTANTS\n  MaxSearches = %d\n  MaxCalls = %d\n  MaxClock = %d\n  TL = 2\n'
            '  Modes = {"depth", "time", "inf", "ponder"}\n  FixReject = TRUE\n  FixLimits = TRUE\n  FixTimer = TRUE\n  FixToken = TRUE\n'
            '  FixTail = TRUE\nINVARIANTS GProps\nCHECK_DEADLOCK FALSE\n')


def gate_behaviours(tier):
    """Behaviours of SearchLifecycleGen.tla (TLC simulation, one file per behaviour) and a selection of them that
    covers every context switch TLC produced: returns (selected behaviours, generated, features covered)."""
    quick = tier == "quick"
    gen, want = (3000, 160) if quick else (30000, 2500)
    mc = (3, 6, 3) if quick else (4, 7, 4)

    def post(run, art):
        with open(os.path.join(art, "behaviours.ndjson"), "w") as out:
            n = 0
            for f in sorted(os.listdir(os.path.join(run, "beh"))):
                steps = []
                for line in open(os.path.join(run, "beh", f)):
                    if line.startswith("/\\ act = "):
                        v = json.loads(line[len("/\\ act = "):])
                        if v != "init":
                            steps.append(json.loads(v))
                n += 1
                out.write(json.dumps({"id": n, "steps": steps}) + "\n")
    art = vlib.tlc("SearchLifecycleGen", GATE_CFG % mc, workers=1, tag="life-gen-%s" % tier,
                   args=["-simulate", "file=beh/b,num=%d" % gen, "-depth", "120", "-seed", str(SEED)], keep_out=False, post=post,
                   pre_dirs=["beh"])
    behs = [json.loads(l) for l in open(os.path.join(art, "behaviours.ndjson"))]

    def feats(b):
        fs, prev = set(), None
        for st in b["steps"]:
            key = (st["k"], st["l"], json.dumps(st["x"]))
            if prev is not None and (prev[0] != st["k"] or prev[3] != st["i"]) and st["k"] != "x" and prev[0] != "x":
                fs.add((prev[0], prev[1], prev[2], key))     # a context switch: which step of whom is followed by which step of another
            fs.add(key)
            if st.get("spawn"):
                fs.add(("spawn", st["l"], min(st.get("alive", 1), 3)))      # a timer is started while 0 / 1 / 2+ others are still alive
            if st["l"] in ("r.try.ok", "r.try.fail", "r.reset", "r.end.set", "r.sent", "r.rel", "c.stop.set", "call.ponderhit"):
                fs.add(("alive", st["l"], json.dumps(st["x"]), min(st.get("alive", 0), 2)))
            prev = (st["k"], st["l"], json.dumps(st["x"]), st["i"])
        return fs
    fl = [(b, feats(b)) for b in behs if b["steps"]]
    covered, chosen = set(), []
    # greedy: always the behaviour that adds most
    pool = list(fl)
    while pool and len(chosen) < want:
        best = max(pool, key=lambda x: len(x[1] - covered))
        if not best[1] - covered:
            break
        chosen.append(best[0])
        covered |= best[1]
        pool.remove(best)
    rng = random.Random(SEED)
    rest = [b for b, _ in pool]
    rng.shuffle(rest)
    chosen += rest[:max(0, want - len(chosen))]
    allf = set()
    for _, f in fl:
        allf |= f
    return chosen, len(behs), len(covered), len(allf), art


GATE_GOALS = 13


def gate_goal_behaviours(tier):
    """One behaviour per scenario goal of SearchLifecycleGen.tla: TLC's counterexample to 'never Goal(n)' (breadth first, so the
    shortest way there). Returns (behaviours with ids 900000+n, artefacts)."""
    import concurrent.futures

    def one(n):
        cfg = (GATE_CFG % (2, 4, 2)).replace("INVARIANTS GProps", "INVARIANTS NoGoal%d" % n)
        art = vlib.tlc("SearchLifecycleGen", cfg, workers=4, tag="life-goal%d" % n, expect_ok=False, timeout=1800)
        steps = []
        for line in vlib.tlc_lines(art, "/\\ act = "):
            v = json.loads(line[len("/\\ act = "):])
            if v != "init":
                steps.append(json.loads(v))
        if not steps:
            raise Inconclusive("TLC did not reach scenario goal %d of SearchLifecycleGen: %s" % (n, vlib.art_stats(art).get("error")))
        return {"id": 900000 + n, "steps": steps, "goal": n}, art
    with concurrent.futures.ThreadPoolExecutor(max_workers=3) as ex:
        got = list(ex.map(one, range(1, GATE_GOALS + 1)))
    return [b for b, _ in got], [a for _, a in got]


def gate_replay(ck, prop, tier, front="api"):
    """Specification -> implementation: behaviours of the lifecycle model forced onto the real Search through the hook
    gates (driver command life-gate). front="uci": the controller's calls are command lines written to a real
    UciHandler.Loop (behaviours with WaitWhileSearching, which no command line triggers, are left out)."""
    extra = ["-front", front]
    chosen, ngen, ncov, nall, art = gate_behaviours(tier)
    ck.add_tlc(art)
    goals, garts = gate_goal_behaviours(tier)
    for a in garts:
        ck.add_tlc(a)
    chosen = goals + chosen
    # the same behaviours once more with the self-ending searches on positions WITHOUT legal moves (mate / stalemate) instead of
    # with a depth limit: the work of such a search ends at once, in every mode, and its result is "no move"
    term = [dict(b, id=b["id"] + 2000000, terminal=True) for b in chosen
            if any(st["l"] == "call.start" and st.get("x") and st["x"][1] for st in b["steps"])]
    chosen = chosen + term[:60 if tier == "quick" else 600]
    if front == "uci":
        chosen = [b for b in chosen if not any(st["l"] == "call.wait" for st in b["steps"])]
    byid = {b["id"]: b for b in chosen}
    results, _ = run_life(chosen, watchdog=8000, cmd="life-gate", extra=extra)
    again = [byid[r["id"]] for r in results if r["hang"]]
    if again:
        confirmed = {}
        for b in again[:8]:
            rr, _ = run_life([b], watchdog=20000, cmd="life-gate", procs=1, extra=extra)
            confirmed[b["id"]] = rr[0]
        results = [confirmed.get(r["id"], r) if r["hang"] else r for r in results]
        results = [r for r in results if not r["hang"] or r["id"] in confirmed]
    if len(results) + max(0, len(again) - 8) != len(chosen):
        raise Inconclusive("only %d of %d behaviours produced a record" % (len(results), len(chosen)))
    # a behaviour that left the model, or on which a monitor fired, is replayed once more on its own before it counts: clock
    # ticks and the monitors' allowances are real time, and a stalled machine makes a timer see more time than the model's
    # clock says (a real defect is forced by the same schedule again and shows again)
    redo = [byid[r["id"]] for r in results if (r.get("diverged") or r.get("stuck") or r.get("early") or r.get("option_lost") or r.get("valid_start_rejected") or r["results"] != r["accepted"])
            and not r["hang"]][:32]
    if redo:
        rr, _ = run_life(redo, watchdog=8000, cmd="life-gate", procs=2, extra=extra)
        second = {r["id"]: r for r in rr}
        results = [second.get(r["id"], r) if not r["hang"] else r for r in results]

    def disc(kind, sig, res, detail):
        b = byid[res["id"]]
        ck.discs.append({"prop": prop, "kind": kind, "sig": sig, "fen": "", "detail": detail,
                         "replay": {"behaviour": b, "diverged": res.get("diverged"), "log": res.get("log", [])[-120:]}})
        key = "%s|%s|%s" % (prop, kind, sig)
        ck.disc_count[key] = ck.disc_count.get(key, 0) + 1
    lock, div, steps, switches = 0, 0, 0, 0
    for res in results:
        steps += res["matched"]
        switches += res.get("switches", 0)
        d = res.get("diverged")
        if d:
            div += 1
            ck.notes.append("DRIFT: behaviour %d left the model at step %d (%s): expected %s, got %s"
                            % (res["id"], d["step"], d["label"], d["expected"], d["got"]))
        else:
            lock += 1
        if res["hang"]:
            what = res["hang"].split()[0]
            disc("call-does-not-return", "hang/" + {"StartSearch": "start", "StopSearch": "stop", "final": "stop"}.get(what, what.lower()), res,
                 {"hang": res["hang"], "diverged": d})
            continue
        if res["panic"]:
            disc("panic", "panic", res, res["panic"])
            continue
        if res["results"] != res["accepted"]:
            disc("result-count", "results/%s" % ("missing" if res["results"] < res["accepted"] else "extra"), res,
                 {"accepted_starts": res["accepted"], "results": res["results"], "diverged": d})
        for e in res.get("early") or []:
            disc("result-before-stop", "early-result/" + e["mode"], res, {"search": e["search"], "note": e["note"], "diverged": d})
        for e in res.get("option_lost") or []:
            disc("setoption", "option/not-applied-although-protocol-valid", res, {"note": e, "diverged": d})
        for e in res.get("valid_start_rejected") or []:
            disc("valid-start-rejected", "start/rejected-after-result" + ("/terminal-position" if byid[res["id"]].get("terminal") else ""), res, {"note": e, "diverged": d})
        for e in res.get("stuck") or []:
            disc("search-does-not-end", "no-self-end/" + e["mode"], res, {"search": e["search"], "note": e["note"], "diverged": d})
    ck.cov.setdefault("counters", {})
    ck.cov["counters"].update({"gate_front": front, "gate_behaviours_generated": ngen, "gate_behaviours_replayed": len(results), "gate_in_lock_step": lock,
                               "gate_diverged": div, "gate_steps_in_lock_step": steps, "gate_context_switches_forced": switches,
                               "gate_features_covered": ncov, "gate_features_in_generated_set": nall, "gate_scenario_goals": len(goals),
                               "gate_scenario_goals_in_lock_step": sum(1 for r in results if 900000 <= r["id"] < 2000000 and not r.get("diverged"))})
    ck.cov["traces_validated_against_impl"] += lock
    ck.cov["evaluations"] += steps
    return results



def life_trace(res):
    """Per-goroutine event sequences of one recorded script (input of SearchLifecycleTrace)."""
    c, r, t = [], {}, {}
    for e in res["events"]:
        g = e["g"]
        if g == "c":
            c.append({"at": e["at"], "mode": e.get("mode", "") or "", "value": bool(e.get("value", False))})
        elif g.startswith("r"):
            r.setdefault(g, []).append(e["at"])
        elif g.startswith("t"):
            t.setdefault(g, []).append(e["at"])
    order = lambda d: [d[k] for k in sorted(d, key=lambda x: int(x[1:]))]   # noqa: E731
    return {"c": c, "r": order(r), "t": order(t)}


def validate_life(results, tag):
    """Validates recorded runs against SearchLifecycle.tla; returns {id: (explained, props_ok, matched, total)}."""
    import concurrent.futures
    import shutil

    def one(res):
        tr = life_trace(res)
        nstart = sum(1 for e in tr["c"] if e["at"] == "call.start.begin")
        cfg = ("SPECIFICATION TSpec\nCONSTANTS\n  MaxSearches = %d\n  MaxCalls = 1000\n  MaxClock = %d\n  TL = 2\n"
               '  Modes = {"depth", "time", "inf", "ponder"}\n  FixReject = TRUE\n  FixLimits = TRUE\n  FixTimer = TRUE\n  FixToken = TRUE\n  FixTail = TRUE\n'
               '  TraceFile = "trace.json"\nCONSTRAINT Mark\nPOSTCONDITION Report\nCHECK_DEADLOCK FALSE\n'
               % (max(1, nstart), 2 * (len(tr["t"]) + 1) + 1))
        try:
            art = vlib.tlc("SearchLifecycleTrace", cfg, files={"trace.json": json.dumps(tr)}, workers=1, tag=tag, cache=False, heap="2g",
                           timeout=300, env_opts=["-Dtlc2.tool.queue.IStateQueue=StateDeque"], _retry=True)   # (no second try)
        except Inconclusive as e:
            if "timed out" not in str(e):
                raise
            # TLC has to FIND an interleaving that explains the run; with several timers alive that search can explode. A run
            # that is too expensive to explain is not validated against the model (the monitors have judged it already)
            return res["id"], None, {}
        verdict = None
        for l in vlib.tlc_lines(art, '<<"LIFE-VERDICT"'):
            m = l.strip().strip("<>").split(",")
            verdict = (m[1].strip() == "TRUE", m[2].strip() == "TRUE", int(m[3]), int(m[4]))
        st = vlib.art_stats(art)
        shutil.rmtree(art, ignore_errors=True)
        if verdict is None:
            raise Inconclusive("no verdict from SearchLifecycleTrace: %s" % st.get("error"))
        return res["id"], verdict, st
    out, states, trans = {}, 0, 0
    with concurrent.futures.ThreadPoolExecutor(max_workers=12) as ex:
        for rid, v, st in ex.map(one, results):
            out[rid] = v
            states += st.get("distinct_states", 0)
            trans += st.get("states_generated", 0)
    return out, states, trans


def check_C14(tier):
    ck = Check("C14", tier)
    quick = tier == "quick"
    rng = random.Random(SEED)
    # 1. the model itself: all interleavings of controller, search and timer goroutines
    mc = (3, 5, 3) if quick else (3, 6, 4)
    cfg = ('SPECIFICATION Spec\nCONSTANTS\n  MaxSearches = %d\n  MaxCalls = %d\n  MaxClock = %d\n  TL = 2\n'
           '  Modes = {"depth", "time", "inf", "ponder"}\n  FixReject = TRUE\n  FixLimits = TRUE\n  FixTimer = TRUE\n  FixToken = TRUE\n  FixTail = TRUE\n'
           'INVARIANTS TypeOK NoCtrlStuck OneResultEach OwnStopOnly NoResultBeforeStop\nPROPERTY RejectOnlyUnanswered\nCHECK_DEADLOCK FALSE\n' % mc)
    a = vlib.tlc("SearchLifecycle", cfg, workers=16, heap="24g", tag="life-mc", keep_out=False, timeout=6 * 3600)
    ck.add_tlc(a)
    # 2. real runs: named scenarios (the counterexamples TLC finds for the unrepaired code) and random scripts
    scripts = life_scripts(tier, rng)
    # ... and the controller's side of behaviours of the model (which calls, in which order, with clock ticks as pauses), run
    # under the free scheduler: the gated replay orders every step through the replayer and so can hide a data race, these runs
    # (and their repetition under the race detector) cannot
    gb, _, _, _, _ = gate_behaviours(tier)
    for b in gb[:(60 if quick else 600)]:
        calls, modes = [], {}
        for st_ in b["steps"]:
            l, x = st_["l"], st_["x"]
            if l == "call.start":
                modes[st_["i"]] = x[0]
                calls.append({"op": "start", "mode": x[0], "fen": rng.choice([START_FEN, KIWI_FEN]), "depth": 1 if (x[1] or x[0] == "depth") else 0,
                              "ms": 60 if x[0] == "time" else 300})
            elif l == "c.stop.set":
                calls.append({"op": "newgame" if x == "newgame" else "stop"})
            elif l == "call.ponderhit":
                calls.append({"op": "ponderhit"})
            elif l == "call.query":
                calls.append({"op": x})
            elif l == "tick":
                calls.append({"op": "sleep", "ms": 20})
        if calls:
            scripts.append({"id": len(scripts) + 1, "name": "from-model", "calls": calls, "jitter": rng.choice([0, 200, 1000]), "procs": rng.choice([0, 0, 1])})
    byid = {s_["id"]: s_ for s_ in scripts}
    results, _ = run_life(scripts, watchdog=8000)
    # a call that did not return is re-run alone with a long watchdog before it counts (a loaded machine
    # must not be mistaken for a deadlock)
    again = [byid[r["id"]] for r in results if r["hang"]]
    if again:
        confirmed = {}
        for sc in again[:12]:
            rr, _ = run_life([sc], watchdog=20000)
            confirmed[sc["id"]] = rr[0]
        results = [confirmed.get(r["id"], r) if r["hang"] else r for r in results]
        results = [r for r in results if not r["hang"] or r["id"] in confirmed]

    def disc(kind, sig, res, detail):
        sc = byid[res["id"]]
        ck.discs.append({"prop": "C14", "kind": kind, "sig": sig, "fen": "", "detail": detail,
                         "replay": {"script": sc, "events": [e["g"] + ":" + e["at"] for e in res["events"]][:200]}})
        key = "C14|%s|%s" % (kind, sig)
        ck.disc_count[key] = ck.disc_count.get(key, 0) + 1
    ok_runs = []
    for res in results:
        sc = byid[res["id"]]
        if res["hang"]:
            disc("call-does-not-return", "hang/" + res["hang"].split("(")[1].split(")")[0].split()[0], res, {"script": sc["name"], "hang": res["hang"]})
            continue
        if res["panic"]:
            disc("panic", "panic", res, res["panic"])
            continue
        accepted = sum(1 for e in res["events"] if e["at"] == "r.try.ok")
        if res["results"] != accepted:
            disc("result-count", "results/%s" % ("missing" if res["results"] < accepted else "extra"), res,
                 {"accepted_starts": accepted, "results": res["results"], "script": sc["name"]})
        # an infinite / ponder search must not deliver its result before a stop (or ponderhit) was requested:
        # the request is logged by the driver BEFORE the call, the end of the search after it happened
        modes = [e.get("mode") for e in res["events"] if e["at"] == "call.start.begin"]
        gs = []
        for e in res["events"]:
            if e["g"].startswith("r") and e["g"] not in gs:
                gs.append(e["g"])
        for k, g in enumerate(gs):
            mode = modes[k] if k < len(modes) else ""
            ev = {e["at"]: e["seq"] for e in res["events"] if e["g"] == g}
            if mode in ("inf", "ponder") and "r.try.ok" in ev and "r.end.set" in ev:
                reqs = ["call.stop.begin", "call.newgame.begin"] + (["call.ponderhit.begin"] if mode == "ponder" else [])
                if not any(e["at"] in reqs and ev["r.try.ok"] < e["seq"] < ev["r.end.set"] for e in res["events"]):
                    disc("result-before-stop", "early-result/" + mode, res,
                         {"script": sc["name"], "search": g, "note": "the search ended although no stop was requested"})
        ok_runs.append(res)
    if len(results) + max(0, len(again) - 12) != len(scripts):
        raise Inconclusive("only %d of %d scripts produced a record" % (len(results), len(scripts)))
    # 3. trace validation: every recorded run must be a behaviour of the model in which the lifecycle properties hold
    # (the runs derived from model behaviours are not validated back against the model: with their many timers TLC's search
    # for an explaining interleaving is too expensive for nothing - they are there for the monitors and the race detector)
    ok_runs = [r_ for r_ in ok_runs if byid[r_["id"]]["name"] != "from-model"]
    verdicts, states, trans = validate_life(ok_runs, "life-trace")
    ck.cov["states"] += states
    ck.cov["transitions"] += trans
    nacc = 0
    nskipped = 0
    for res in ok_runs:
        if verdicts[res["id"]] is None:
            nskipped += 1
            continue
        explained, props, matched, total = verdicts[res["id"]]
        if explained and props:
            nacc += 1
        elif explained:
            disc("lifecycle-property-violated-in-real-run", "trace/property/" + byid[res["id"]]["name"], res,
                 {"note": "the recorded run is a behaviour of SearchLifecycle.tla only with a search ended early / answered by leftovers"})
        else:
            # model drift: not a verdict on the code (DESIGN 4.4) - reported, monitors above still decide
            ck.notes.append("DRIFT: run %d (%s) is not a behaviour of SearchLifecycle.tla (matched %d of %d controller events)"
                            % (res["id"], byid[res["id"]]["name"], matched, total))
    drift = len(ok_runs) - nskipped - nacc - sum(1 for d in ck.discs if d["kind"].startswith("lifecycle-property"))
    if nskipped:
        ck.notes.append("%d runs were too expensive to validate against the model (TLC's search for an explaining interleaving timed out)" % nskipped)
    # 3b. the other direction: behaviours of the model forced onto the real code through the hook gates
    gate_replay(ck, "C14", tier)
    # 4. data races: the same scripts under the race detector
    rres, races = run_life(scripts if quick else scripts[:400], race=True, watchdog=6000)
    import re
    nrace = 0
    for blk in races.split("WARNING: DATA RACE")[1:]:
        frames = re.findall(r"^\s+(\S+)\(.*\)\n\s+(\S+?):(\d+)", blk, re.M)
        stacks = re.split(r"\n\n", blk.strip())
        tops = []
        for stk in stacks[:2]:
            m = re.search(r"^\s+(\S+)\(.*?\)\n\s+(\S+?):(\d+)", stk, re.M)
            if m:
                tops.append((m.group(1), m.group(2), m.group(3)))
        if len(tops) == 2 and all("/internal/" in t[1] and "/verifdrv/" not in t[1] for t in tops):
            nrace += 1
            sig = "race/" + " vs ".join(sorted(t[0].split("/")[-1] for t in tops))
            ck.discs.append({"prop": "C14", "kind": "data-race", "sig": sig, "fen": "", "detail": blk[:1500], "replay": {}})
            key = "C14|data-race|" + sig
            ck.disc_count[key] = ck.disc_count.get(key, 0) + 1
    # 4b. the protocol front under the race detector: what the protocol loop itself shares with the goroutines it starts - the output
    # writer (readyok / info strings of the loop, info / bestmove of the search), and the perft command (internal/movegen/perft.go),
    # whose goroutine is started by 'perft' and stopped by the same 'stop' that stops the search
    uscripts = uci_race_scripts(tier, rng)
    ures = ul.run_sessions(uscripts, procs=6, timeout=180, race=True)
    nurace = 0
    for sc in uscripts:
        r = ures[sc["id"]]
        if r["rc"] == -9:
            raise Inconclusive("UCI session under the race detector timed out (%s)" % sc["name"])
        if r["rc"] != 0:
            ck.discs.append({"prop": "C14", "kind": "engine-dies", "sig": "uci-race/dies/" + sc["name"], "fen": "", "detail": r["stderr"][-1500:], "replay": {"script": sc}})
            ck.disc_count["C14|engine-dies|uci-race/dies/" + sc["name"]] = ck.disc_count.get("C14|engine-dies|uci-race/dies/" + sc["name"], 0) + 1
        for blk in r["races"]:
            tops = []
            for stk in re.split(r"\n\n", blk.strip())[:2]:
                # innermost ENGINE frame of each of the two conflicting accesses
                for m in re.finditer(r"^\s+(\S+)\(.*?\)\n\s+(\S+?):(\d+)", stk, re.M):
                    if "/internal/" in m.group(2) and "/verifdrv/" not in m.group(2):
                        tops.append(m.group(1))
                        break
            if len(tops) == 2:
                nurace += 1
                sig = "race/uci/" + " vs ".join(sorted(t.split("/")[-1] for t in tops))
                ck.discs.append({"prop": "C14", "kind": "data-race", "sig": sig, "fen": "", "detail": blk[:1500], "replay": {"script": sc}})
                ck.disc_count["C14|data-race|" + sig] = ck.disc_count.get("C14|data-race|" + sig, 0) + 1
    ck.cov.setdefault("counters", {}).update({"uci_sessions_under_race_detector": len(uscripts), "race_reports_in_uci_sessions": nurace})
    ck.cov["evaluations"] += len(results) + len(rres) + len(uscripts)
    ck.cov["distinct_nontrivial"] = len({json.dumps(s_["calls"]) + str(s_["jitter"]) + "/" + str(s_.get("procs", 0)) for s_ in scripts})
    ck.cov["traces_validated_against_impl"] += nacc
    ck.cov.setdefault("counters", {}).update({"scripts": len(scripts), "runs_explained_by_model": nacc, "model_drift": drift,
                                              "race_detector_runs": len(rres), "race_reports_in_engine_code": nrace})
    ck.cov["rule"] = ("SearchLifecycle.tla model-checked for all interleavings of controller, search and timer goroutines (%d searches, %d calls, "
                      "%d clock ticks); real controller scripts (the named counterexamples of the unrepaired code and seeded random scripts, "
                      "with random delays injected at the hooks) run against the real Search with a watchdog on every call, each recorded run "
                      "validated against the model with the lifecycle properties (SearchLifecycleTrace.tla), and repeated under the Go race "
                      "detector; behaviours of the model (SearchLifecycleGen.tla, TLC simulation, selected to cover every context switch "
                      "generated) forced onto the real Search step by step through the hook gates; non-trivial = distinct scripts" % mc)
    ck.cov["samples"] = [{"script": byid[r["id"]]["name"], "calls": [c["op"] + (":" + c["mode"] if c.get("mode") else "") for c in byid[r["id"]]["calls"]],
                          "events": [e["g"] + ":" + e["at"] for e in r["events"]][:40]} for r in results[:2]]
    return ck.finish()


def uci_position_cmd(node):
    """position command for a TLC walk/tree node (root FEN + moves) and the FEN the specification expects."""
    root = fenspec.state_to_fen(node["root"])
    cmd = "position startpos" if root == START_FEN else "position fen " + root
    if node["path"]:
        cmd += " moves " + " ".join(fenspec.mv_uci(m) for m in node["path"])
    return cmd, fenspec.state_to_fen(node["pos"])


def uci_model(tier):
    cfg = "SPECIFICATION Spec\nCONSTANTS\n  MaxLines = %d\n  TraceFile = \"none\"\nINVARIANTS Sane OptionsOut\nCHECK_DEADLOCK FALSE\n" % (10 if tier == "quick" else 14)
    a = vlib.tlc("UciSession", cfg, workers=8, tag="uci-mc")
    optf = None
    for l in vlib.tlc_lines(a, '<<"OPTS"'):
        optf = json.loads(json.loads(l.rstrip()[len('<<"OPTS", '):-2]))
        break
    return a, optf


def handler_sessions(tier, rng, optfield):
    """Sessions generated by UciHandler.tla (TLC simulation) bound to real games from the ChessGame walks.
    Returns (scripts-without-ids, artefact): each script has steps, the FEN expected at every sync (None = not constrained)."""
    quick = tier == "quick"
    nsess = 60 if quick else 1500
    optf = [o for o in sorted(optfield) if o not in ("Hash", "Use_Book", "Use_ASP", "Use_MTDf")]
    rng.shuffle(optf)
    batches = [optf[i:i + 4] for i in range(0, len(optf), 4)]

    def post(run, art):
        with open(os.path.join(art, "sessions.ndjson"), "w") as out:
            for f in sorted(os.listdir(os.path.join(run, "beh"))):
                acts = []
                for line in open(os.path.join(run, "beh", f)):
                    if line.startswith("/\\ act = "):
                        v = json.loads(line[len("/\\ act = "):])
                        if v != "init":
                            acts.append(json.loads(v))
                out.write(json.dumps(acts) + "\n")
    sessions, arts = [], []
    for bi, batch in enumerate(batches):
        cfg = ("SPECIFICATION HSpec\nCONSTANTS\n  MaxLines = 44\n  TraceFile = \"none\"\n  SessOpts = %s\nINVARIANTS HSane\nCHECK_DEADLOCK FALSE\n"
               % tla_set(batch))
        art = vlib.tlc("UciHandler", cfg, workers=1, tag="uci-gen-%s-%d" % (tier, bi), keep_out=False, post=post, pre_dirs=["beh"],
                       args=["-simulate", "file=beh/s,num=%d" % (nsess // len(batches) + 1), "-depth", "44", "-seed", str(SEED + bi)])
        arts.append(art)
        sessions += [json.loads(l) for l in open(os.path.join(art, "sessions.ndjson"))]
    art = arts[0]
    # ---- real games for the abstract ones: prefixes of TLC walks (every prefix is a state of ChessGame, with its FEN and legal moves)
    nodes = sl.load_nodes(shared(tier)["walk"], want=lambda o: len(o["path"]) <= 6)
    by = {(n["rootidx"], tuple(n["path"])): n for n in nodes}
    long6 = sorted((k for k in by if len(k[1]) == 6 and all((k[0], k[1][:i]) in by for i in range(7))), key=lambda k: (k[0], k[1]))
    if not long6:
        raise Inconclusive("no walk of 6 plies in the walk artefact")
    rootfen = lambda k: fenspec.state_to_fen(by[(k[0], ())]["root"])   # noqa: E731
    starts = [k for k in long6 if rootfen(k) == START_FEN] or long6
    families = []
    for _ in range(8):
        g1 = rng.choice(starts)
        # game 2: the first three plies of game 1, then a different fourth ply (a sibling in the walk's fringe)
        sib = [k for k in by if k[0] == g1[0] and len(k[1]) == 4 and k[1][:3] == g1[1][:3] and k[1] != g1[1][:4]]
        others = [k for k in long6 if k[0] != g1[0] and rootfen(k) != START_FEN]
        if not sib or not others:
            continue
        g3 = rng.choice(others)
        families.append([g1, rng.choice(sorted(sib)), (g3[0], g3[1][:5])])
    if not families:
        raise Inconclusive("no game family in the walk artefact")

    def pos_cmd(game, k):
        root = rootfen(game)
        cmd = "position startpos" if root == START_FEN else "position fen " + root
        if k:
            cmd += " moves " + " ".join(fenspec.mv_uci(m) for m in game[1][:k])
        return cmd
    S = ul.send
    out = []
    for i, acts in enumerate(sessions):
        fam = families[i % len(families)]
        steps, expect = [S("uci"), ul.wait("uciok", 3000), S("setoption name Print Config"), ul.sync()], [None]
        prints = [None]          # option snapshots of the specification at every configuration print-out (the first is the baseline)
        cur, cur_node = None, None       # FEN the engine must hold (None after ucinewgame: not part of the property)
        start_node = by[(fam[0][0], ())] if rootfen(fam[0]) == START_FEN else None

        def sync():
            steps.append(ul.sync())
            expect.append(cur)
        for a in acts:
            c = a["c"]
            if c == "position":
                g, k = a["a"]
                game = fam[g - 1]
                steps.append(S(pos_cmd(game, k)))
                cur_node = by[(game[0], game[1][:k])]
                cur = fenspec.state_to_fen(cur_node["pos"])
                sync()
            elif c == "ucinewgame":
                steps.append(S("ucinewgame"))
                cur, cur_node = None, start_node
                sync()
            elif c == "setoption":
                steps.append(S("setoption name %s value %s" % (a["a"][0], a["a"][1])))
                sync()
            elif c == "printconfig":
                steps.append(S("setoption name Print Config"))
                prints.append(a["a"])
                sync()
            elif c == "go":
                kind = a["a"]
                legal = [fenspec.mv_uci(m) for m in (cur_node["legal"] if cur_node else [])]
                go = {"depth": "go depth 3", "nodes": "go nodes 1500", "movetime": "go movetime 50", "clock": "go wtime 400 btime 400 winc 10 binc 10",
                      "searchmoves": ("go depth 2 searchmoves " + " ".join(legal[:2])) if len(legal) >= 2 else "go depth 2",
                      "inf": "go infinite", "infdepth": "go infinite depth 2", "ponderclock": "go ponder wtime 400 btime 400",
                      "ponderdepth": "go ponder depth 2"}[kind]
                steps.append(S(go))
                if kind in ("inf", "infdepth", "ponderclock", "ponderdepth"):
                    steps.append(ul.quiet("bestmove", 40))
            elif c == "stop":
                steps.append(S("stop"))
            elif c == "ponderhit":
                steps.append(S("ponderhit"))
            elif c == "bestmove":
                steps.append(ul.wait("bestmove", 8000))
                sync()       # a search leaves the handler's position alone
            elif c == "readyok":
                sync()       # (the isready of the model is the one the sync sends)
        # a session that ends with an unanswered infinite / ponder search is closed properly
        pend = [a["c"] for a in acts if a["c"] in ("go", "bestmove")]
        if pend and pend[-1] == "go":
            steps += [S("stop"), ul.wait("bestmove", 8000)]
            sync()
        steps.append(S("setoption name Print Config"))          # ... and once more at the end of every session
        prints.append({o_: v_ for a in acts if a["c"] == "setoption" for o_, v_ in [a["a"]]})
        sync()
        out.append({"steps": steps, "expect": expect, "acts": [a["c"] for a in acts], "prints": prints})
    return out, arts



def check_C12(tier):
    ck = Check("C12", tier)
    quick = tier == "quick"
    rng = random.Random(SEED)
    a, optf = uci_model(tier)
    ck.add_tlc(a)
    art, normal, drawn, roots = search_positions(tier, rng)
    nodes = [n for n in normal if len(n["legal"]) >= 2][:(60 if quick else 2000)]
    S = ul.send
    scripts, meta = [], {}

    def add(name, steps, **m):
        sid = len(scripts) + 1
        scripts.append({"id": sid, "name": name, "steps": steps})
        meta[sid] = dict(m, name=name)
        return sid
    # ---- random protocol-valid sessions
    nsess = 30 if quick else 1500
    for k in range(nsess):
        steps = [S("uci"), ul.wait("uciok", 3000), ul.sync()]
        fens = []
        for g in range(rng.randint(2, 4)):
            n = rng.choice(nodes)
            if rng.random() < 0.3:
                steps.append(S("ucinewgame"))
            cmd, fen = uci_position_cmd(n)
            steps += [S(cmd), ul.sync()]
            fens.append(fen)
            r = rng.random()
            if r < 0.55:
                go = rng.choice(["go depth 3", "go depth 1", "go nodes 2000", "go movetime 60", "go wtime 500 btime 500 winc 10 binc 10",
                                 "go wtime 300 btime 300 movestogo 5", "go depth 2 searchmoves " + " ".join(fenspec.mv_uci(m) for m in n["legal"][:2])])
                steps += [S(go), ul.wait("bestmove", 6000)]
            elif r < 0.8:
                steps += [S("go infinite"), ul.quiet("bestmove", rng.choice([30, 80]))]
                if rng.random() < 0.5:
                    steps.append(ul.sync())
                steps += [S("stop"), ul.wait("bestmove", 3000)]
            else:
                # a ponder search carries the limits of the search it becomes at ponderhit: the clock, or a depth / node /
                # move-time limit (then "once the limit is reached" applies from the ponderhit on)
                pgo = rng.choice(["go ponder wtime 400 btime 400", "go ponder wtime 400 btime 400", "go ponder depth 3", "go ponder nodes 2000",
                                  "go ponder movetime 60", "go ponder depth 2 wtime 400 btime 400"])
                steps += [S(pgo), ul.quiet("bestmove", rng.choice([50, 150]))]
                if rng.random() < 0.6:
                    steps += [S("ponderhit"), ul.wait("bestmove", 3000)]
                else:
                    steps += [S("stop"), ul.wait("bestmove", 3000)]
        steps.append(ul.sync())
        add("protocol", steps, fens=fens)
    # ---- sessions of an engine WITH an opening book (the repository's small sample book): a time-controlled go on a book position
    # is answered from the book without a search - still exactly one bestmove per go, a ponder go still waits for its ponderhit /
    # stop, the first real search afterwards (which grants itself extra time) still answers within its clock
    outn = nodes[0]
    ocmd, _ = uci_position_cmd(outn)
    pre = [S("uci"), ul.wait("uciok", 3000), ul.sync(15000)]
    for rep in range(1 if quick else 6):
        bk = [
            [S("position startpos"), S("go wtime 60000 btime 60000"), ul.wait("bestmove", 8000), S(ocmd), S("go wtime 300 btime 300 movestogo 1"), ul.wait("bestmove", 3000)],
            [S("position startpos"), S("go ponder wtime 1000 btime 1000"), ul.quiet("bestmove", 120), S("ponderhit"), ul.wait("bestmove", 5000)],
            [S("position startpos"), S("go ponder wtime 1000 btime 1000"), ul.quiet("bestmove", 120), ul.sync(), S("stop"), ul.wait("bestmove", 3000)],
            [S("position startpos"), S("go infinite"), ul.quiet("bestmove", 80), S("stop"), ul.wait("bestmove", 3000)],
            [S("position startpos"), S("go movetime 50"), ul.wait("bestmove", 3000), S("ucinewgame"), S("position startpos"), S("go depth 2"), ul.wait("bestmove", 8000)],
            [S("position startpos"), S("go wtime 1000 btime 1000 winc 5000 binc 5000"), ul.wait("bestmove", 3000), S("go wtime 1000 btime 1000"), ul.wait("bestmove", 3000),
             S(ocmd), S("go wtime 200 btime 200 winc 5000 binc 5000"), ul.wait("bestmove", 3000), S(ocmd), S("go wtime 200 btime 200 winc 5000 binc 5000"), ul.wait("bestmove", 3000)],
        ]
        for steps in bk:
            sid = add("book", pre + steps + [ul.sync()])
            scripts[sid - 1]["book"] = True
    # ---- new-game clause: after ucinewgame a fixed-depth search equals the search of a fresh engine
    ng_nodes = (roots[1:3] + nodes[:2]) if quick else (roots[:20] + nodes[:40])
    for i, n in enumerate(ng_nodes):
        cmd, fen = uci_position_cmd(n)
        other, _ = uci_position_cmd(nodes[(i * 7 + 3) % len(nodes)])
        for hash_off in (False, True):
            pre = [S("uci"), ul.wait("uciok", 3000)] + ([S("setoption name Use_Hash value false")] if hash_off else []) + [ul.sync()]
            fresh = pre + [S(cmd), S("go depth 4"), ul.wait("bestmove", 20000)]
            dirty = pre + [S(other), S("go depth 4"), ul.wait("bestmove", 20000), S(cmd), S("go depth 3"), ul.wait("bestmove", 20000),
                           S("ucinewgame"), S(cmd), S("go depth 4"), ul.wait("bestmove", 20000)]
            f = add("newgame-fresh", fresh, pair=i, hash_off=hash_off, fen=fen)
            d = add("newgame-dirty", dirty, pair=i, hash_off=hash_off, fen=fen, fresh=f)
    # ... and deeper: state that leaks through ucinewgame (killer moves, counters) changes the move ordering first and the result
    # only where pruning depends on the ordering - depth 8 from the initial position and two roots
    for i, n in enumerate(([{"root": None}] + roots[1:7]) if quick else ([{"root": None}] + roots[1:12])):
        cmd, fen = ("position startpos", START_FEN) if n["root"] is None else uci_position_cmd(n)
        dd = 9 if n["root"] is None else 8
        pre = [S("uci"), ul.wait("uciok", 3000), ul.sync()]
        fresh = pre + [S(cmd), S("go depth %d" % dd), ul.wait("bestmove", 120000)]
        dirty = pre + [S(cmd), S("go depth %d" % dd), ul.wait("bestmove", 120000), S("ucinewgame"), S(cmd), S("go depth %d" % dd), ul.wait("bestmove", 120000)]
        f = add("newgame-fresh", fresh, pair=1000 + i, hash_off=False, fen=fen)
        add("newgame-dirty", dirty, pair=1000 + i, hash_off=False, fen=fen, fresh=f)
    # ---- option clause: setoption changes exactly the named field of the configuration print-out
    for name in sorted(optf):
        for val in (["true", "false"] if name != "Hash" else ["32", "1"]):
            add("option", [S("uci"), ul.wait("uciok", 3000), S("setoption name Print Config"), ul.sync(),
                           S("setoption name %s value %s" % (name, val)), ul.sync(), S("setoption name Print Config"), ul.sync()],
                option=name, value=val)
    # ---- sessions generated from UciHandler.tla: position commands that extend / shorten / repeat / replace one another,
    # mixed with every other command; the handler's position is compared with the specification's after every step
    hsess, harts = handler_sessions(tier, rng, optf)
    for hart in harts:
        ck.add_tlc(hart)
    for h in hsess:
        add("handler", h["steps"], expect=h["expect"], acts=h["acts"], prints=h["prints"])
    res = ul.run_sessions(scripts, timeout=400)
    # wall-clock clauses (answer within a time-out, prompt stop) are confirmed by running the session again, alone,
    # before they count: a loaded machine must not raise an alarm
    def timing_suspect(r):
        ev = r["events"]
        if any(e["ev"] == "timeout" for e in ev) or r["rc"] == -9:
            return True
        for st_ in [e for e in ev if e["ev"] == "in" and e.get("line") == "stop"]:
            bm = [e for e in ev if e["ev"] == "out" and e.get("line", "").startswith("bestmove") and e["t_ms"] >= st_["t_ms"]]
            if bm and bm[0]["t_ms"] - st_["t_ms"] > 500:
                return True
        return False
    for sc in scripts:
        if timing_suspect(res[sc["id"]]):
            again = ul.run_sessions([sc], procs=1, timeout=120)[sc["id"]]
            if not timing_suspect(again):
                res[sc["id"]] = again
                ck.notes.append("session %d re-run alone after a time-out under load: passed" % sc["id"])

    def disc(kind, sig, sid, detail):
        ck.discs.append({"prop": "C12", "kind": kind, "sig": sig, "fen": "", "detail": detail,
                         "replay": {"script": scripts[sid - 1], "events": res[sid]["events"][-60:]}})
        key = "C12|%s|%s" % (kind, sig)
        ck.disc_count[key] = ck.disc_count.get(key, 0) + 1
    traces = {}
    nfen = nprint = 0
    for sc in scripts:
        sid, r, m = sc["id"], res[sc["id"]], meta[sc["id"]]
        ev = r["events"]
        if r["rc"] != 0 or not ev or ev[-1]["ev"] != "end" or ev[-1]["line"] != "loop-exited":
            last_in = [e.get("line", "") for e in ev if e["ev"] == "in"][-1:] or [""]
            disc("engine-dies-or-hangs", "crash/" + (last_in[0].split() or ["?"])[0], sid, {"rc": r["rc"], "stderr": r["stderr"][-800:], "last_command": last_in[0]})
            continue
        for e in ev:
            if e["ev"] == "timeout":
                last_go = [x.get("line", "") for x in ev if x["ev"] == "in" and x.get("line", "").startswith("go") and x["t_ms"] < e["t_ms"]][-1:] or [""]
                sig = "no-answer/" + e.get("line", "")
                if e.get("line", "") == "bestmove":
                    sig += "/" + ("searchmoves" if "searchmoves" in last_go[0] else last_go[0].split()[1] if len(last_go[0].split()) > 1 else "go")
                disc("missing-" + e.get("line", ""), sig, sid, {"after": last_go[0], "waited_ms": e.get("n")})
            if e["ev"] == "quiet" and e.get("n", 0) > 0:
                disc("bestmove-before-stop", "early-bestmove", sid, {"count": e["n"]})
        # stop -> bestmove latency
        stops = [e for e in ev if e["ev"] == "in" and e.get("line", "") == "stop"]
        for st_ in stops:
            bm = [e for e in ev if e["ev"] == "out" and e.get("line", "").startswith("bestmove") and e["t_ms"] >= st_["t_ms"]]
            if bm and bm[0]["t_ms"] - st_["t_ms"] > 500:
                disc("stop-not-prompt", "stop-latency", sid, {"ms": bm[0]["t_ms"] - st_["t_ms"]})
        if m["name"] == "handler":
            # configuration print-outs: every option at the value it was last set to in this session, everything else as at the first one
            import re as _re
            cfgs, cur = [], {}
            for e in ev:
                if e["ev"] == "out":
                    mm = _re.match(r"info string\s*\d+\s*:\s*(\w+)\s+\S+\s+=\s*(.*?)\s*$", e.get("line", ""))
                    if mm:
                        cur[mm.group(1)] = mm.group(2)
                    if e.get("line", "").startswith("info string Search Config"):
                        cfgs.append(cur)
                        cur = {}
            if len(cfgs) == len(m["prints"]) and cfgs:
                base = cfgs[0]
                for j in range(1, len(cfgs)):
                    want = dict(base)
                    for o_, v_ in m["prints"][j].items():
                        if v_ != "default":
                            want[optf[o_]] = v_
                    nprint += 1
                    bad = sorted(f for f in want if cfgs[j].get(f) != want[f])
                    if bad:
                        disc("setoption", "option/session", sid, {"print_out": j, "fields": {f: {"engine": cfgs[j].get(f), "specification": want[f]} for f in bad[:6]},
                                                                 "options_set": {o_: v_ for o_, v_ in m["prints"][j].items() if v_ != "default"}})
                        break
            elif m["prints"]:
                disc("print-config", "option/no-print-out", sid, {"prints": len(cfgs), "expected": len(m["prints"])})
            traces[sid] = ul.trace_of(ev)
            got = [e.get("line", "") for e in ev if e["ev"] == "fen"]
            if len(got) == len(m["expect"]):
                for j, (g_, e_) in enumerate(zip(got, m["expect"])):
                    if e_ is None:
                        continue
                    nfen += 1
                    if g_ != e_:
                        prev = [x.get("line", "") for x in ev if x["ev"] == "in" and not x.get("line", "").startswith("isready")]
                        disc("position-command", "position/fen-differs/session", sid,
                             {"engine": g_, "specification": e_, "sync_number": j + 1, "commands": prev[:40]})
                        break
        if m["name"] == "book":
            traces[sid] = ul.trace_of(ev)
            # a clock go after the book move must be answered within its clock (250 ms allowance)
            for gi, e in enumerate(ev):
                if e["ev"] == "in" and e.get("line", "").startswith("go wtime") and int(e["line"].split()[2]) <= 1000:
                    bm = [x for x in ev[gi:] if x["ev"] == "out" and x.get("line", "").startswith("bestmove")]
                    if bm and bm[0]["t_ms"] - e["t_ms"] > int(e["line"].split()[2]) + 250:
                        disc("clock-overrun", "book/answer-after-the-clock", sid, {"go": e["line"], "ms": bm[0]["t_ms"] - e["t_ms"]})
        if m["name"] == "protocol":
            traces[sid] = ul.trace_of(ev)
            fens = [e.get("line", "") for e in ev if e["ev"] == "fen"]
            # fen events: after uci, after each position command (and after isready during search), at the end
            want = m["fens"]
            pos_syncs = []
            k = 0
            for e in ev:
                if e["ev"] == "in" and e.get("line", "").startswith("position"):
                    k = 1
                elif e["ev"] == "fen" and k == 1:
                    pos_syncs.append(e.get("line", ""))
                    k = 0
            for got, exp in zip(pos_syncs, want):
                nfen += 1
                if got != exp:
                    disc("position-command", "position/fen-differs", sid, {"engine": got, "specification": exp})
    # trace validation against UciSession.tla
    verdicts, st = ul.validate(traces)
    ck.cov["states"] += st[0]
    ck.cov["transitions"] += st[1]
    nacc = 0
    for sid, (ok, dia) in verdicts.items():
        if ok:
            nacc += 1
        else:
            tr = traces[sid]
            bad = tr[dia - 1] if dia - 1 < len(tr) else {"ev": "end"}
            sig = "wire/" + bad["ev"] + "-" + bad.get("cmd", "")
            disc("session-not-allowed-by-specification", sig, sid, {"line_index": dia, "line": bad,
                                                                   "note": "the exchanged lines are not a behaviour of UciSession.tla"})
    # new game clause
    def summary(ev):
        outs = [e.get("line", "") for e in ev if e["ev"] == "out"]
        bms = [i for i, l in enumerate(outs) if l.startswith("bestmove")]
        if not bms:
            return None
        infos = [l for l in outs[:bms[-1]] if l.startswith("info depth") and " pv " in l]
        last = infos[-1] if infos else ""
        import re
        mm = re.search(r"score (\S+ \S+)", last)
        return {"bestmove": outs[bms[-1]].split()[1], "score": mm.group(1) if mm else "", "pv": last.split(" pv ")[-1] if last else ""}
    ncmp = 0
    for sc in scripts:
        m = meta[sc["id"]]
        if m["name"] == "newgame-dirty" and res[sc["id"]]["rc"] == 0 and res[m["fresh"]]["rc"] == 0:
            a_, b_ = summary(res[m["fresh"]]["events"]), summary(res[sc["id"]]["events"])
            ncmp += 1
            if a_ and b_ and a_ != b_:
                disc("ucinewgame-does-not-reset", "newgame/" + ("hash-off" if m["hash_off"] else "hash-on"), sc["id"],
                     {"fen": m["fen"], "fresh_engine": a_, "after_ucinewgame": b_})
    # option clause
    import re
    nopt = 0
    for sc in scripts:
        m = meta[sc["id"]]
        if m["name"] != "option" or res[sc["id"]]["rc"] != 0:
            continue
        cfgs, cur = [], {}
        for e in res[sc["id"]]["events"]:
            if e["ev"] == "out":
                mm = re.match(r"info string\s*\d+\s*:\s*(\w+)\s+\S+\s+=\s*(.*?)\s*$", e.get("line", ""))
                if mm:
                    cur[mm.group(1)] = mm.group(2)
                if e.get("line", "").startswith("info string Search Config"):
                    cfgs.append(cur)
                    cur = {}
        if len(cfgs) != 2:
            disc("print-config", "option/no-print-out", sc["id"], {"prints": len(cfgs)})
            continue
        nopt += 1
        changed = {k for k in cfgs[1] if cfgs[0].get(k) != cfgs[1][k]}
        field = optf[m["option"]]
        want_val = m["value"]
        ok = (cfgs[1].get(field) == want_val) and changed <= {field}
        if not ok:
            disc("setoption", "option/" + m["option"], sc["id"], {"option": m["option"], "value": want_val, "expected_field": field,
                                                                   "field_after": cfgs[1].get(field), "fields_changed": sorted(changed)})
    ck.cov["evaluations"] = len(scripts)
    ck.cov["distinct_nontrivial"] = len(scripts)
    ck.cov["traces_validated_against_impl"] = nacc
    # ---- the interleavings inside the engine, at the wire: behaviours of SearchLifecycleGen.tla (simulated + scenario goals) forced onto
    # a real UciHandler.Loop through the hook gates, the controller's calls being command lines (position + go, stop, ponderhit,
    # ucinewgame, isready, setoption Clear Hash / Hash) and the results bestmove lines
    ck.cov["counters"] = {}
    gate_replay(ck, "C12", tier, front="uci")
    gcnt = ck.cov.get("counters", {})
    ck.cov["counters"] = {"protocol_sessions": nsess, "handler_sessions": len(hsess), "sessions_accepted_by_spec": nacc, "position_fens_compared": nfen, "session_config_print_outs_compared": nprint,
                          "newgame_pairs": ncmp, "option_sessions": nopt}
    ck.cov["counters"].update({k_: v_ for k_, v_ in gcnt.items() if k_.startswith("gate_")})
    ck.cov["rule"] = ("real UciHandler.Loop sessions over pipes, one child process each: seeded protocol-valid sessions (every go mode, go sent "
                      "immediately after bestmove, isready during search, stop, ponderhit) whose exchanged lines are validated against "
                      "UciSession.tla; sessions generated by TLC from UciHandler.tla (position commands extending / shortening / repeating / "
                      "replacing one another, mixed with every kind of go, stop, ponderhit, isready, ucinewgame, setoption) with the handler's "
                      "position compared with the specification's after every step; position commands built from TLC walk nodes with the FEN expected by the specification; ucinewgame "
                      "against a fresh engine; every option against the configuration print-out (OptionField of the specification)")
    ck.cov["samples"] = [{"session": s_["name"], "lines": [e["ev"] + ": " + e.get("line", "") for e in res[s_["id"]]["events"] if e["ev"] in ("in",)][:14]}
                         for s_ in scripts[:2]]
    ck.assumptions += ["stop must be answered within 500 ms", "fixed-depth searches are deterministic (single search thread)"]
    return ck.finish()


MALFORMED = [
    "position", "position fen", "position startpos moves e2e5", "position startpos moves e2e4 e7e5 e2e4",
    "position fen 8/8/8 w - -", "position fen rnbqkbnr/pppppppp/9/8/8/8/PPPPPPPP/RNBQKBNR w KQkq - 0 1",
    "position fen rnbqkbnr/pppppppp/8/8/8/8/PPPPPPPP/RNBQKBNR x KQkq - 0 1", "position xyz", "position startpos move e2e4",
    "position fen 8/8/8/8/8/8/8/8 w - - 0 1", "position fen rnbqkbnr/pppppppp/8/8/8/8/PPPPPPPP/RNBQKBNR w KQkq e9 0 1",
    "position fen rnbqkbnr/pppppppp/44/8/8/8/PPPPPPPP/RNBQKBN w KQkq - 0 1", "position fen k7/8/8/8/8/8/8/K7 w - - x 1",
    "position fen  moves e2e4",
    # FEN text that is well formed for a position that is not (FenWellFormed.tla): the side that moved is in check, en-passant
    # squares that no double step produced, castling rights without the rook, a pawn on the last rank, touching kings
    "position fen 4k3/8/8/8/8/8/4R3/4K3 w - - 0 1", "position fen 4k3/8/8/8/8/8/3PK3/8 w - e3 0 1", "position fen kK6/8/8/8/8/8/8/8 w - - 0 1",
    "position fen 4k3/8/8/4P3/8/8/8/4K3 w - d6 0 1", "position fen 4k3/8/8/8/8/8/8/4K3 w KQkq - 0 1", "position fen P3k3/8/8/8/8/8/8/4K2p w - - 0 1",
    "position fen rnbqkbnr/pppppppp/8/8/8/8/PPPPPPPP/RNBQKBNR w KQkq e3 0 1 moves e2e4",
    "go depth", "go depth x", "go nodes", "go nodes -", "go movetime", "go movetime abc", "go wtime", "go movestogo", "go mate",
    "go foo", "go depth 2 foo", "go\tdepth", "go winc", "go binc x", "go btime",
    "setoption", "setoption name", "setoption name Foo value 1", "setoption value 3",
    "setoption name Hash value -1", "setoption name Hash value -100000", "setoption name Hash value abc", "setoption name Hash value",
    "position startpos moves " + " ".join(["g1f3", "g8f6", "f3g1", "f6g8"] * 130),      # 520 half moves: more than the position can hold
    "position startpos moves " + " ".join(["b1c3", "b8c6", "c3b1", "c6b8"] * 400),
    # just beyond the longest game the engine takes (383 half moves: the history array leaves room for the search depth and nothing
    # else) and just below the size of the array: refused, or else the next search must survive
    "position startpos moves " + " ".join(["g1f3", "g8f6", "f3g1", "f6g8"] * 96),             # 384
    "position startpos moves " + " ".join((["g1f3", "g8f6", "f3g1", "f6g8"] * 113)[:450]),
    "position startpos moves " + " ".join((["b1c3", "b8c6", "c3b1", "c6b8"] * 128)[:511]),
    "position startpos moves e2e4 moves e7e5", "position startpos moves e2e4q", "position startpos moves 0000", "position startpos moves e7e8q",
    "go depth 99999999999999999999 x", "setoption name Hash value 1.5", "setoption name Hash value 99999999999999999999",
    "xyz", "   ", "\t", "quit2", "u c i", "\u2654\u2655 e2e4", "go" + " x" * 2000, "position " + "9" * 3000, "=" * 20000,
]


def check_C16(tier):
    ck = Check("C16", tier)
    quick = tier == "quick"
    rng = random.Random(SEED)
    import shutil
    cnt = {}
    # ---- FEN totality: FenInput.tla generates the structured family, the driver adds byte-level mutants
    cfg = "INIT Init\nNEXT Next\nCONSTANTS\n  MaxTok = %d\nINVARIANT Out\nCHECK_DEADLOCK FALSE\n" % (4 if quick else 6)
    fa = vlib.tlc("FenInput", cfg, workers=8, tag="fen-gen", timeout=3600)
    ck.add_tlc(fa)
    # ---- "an error or a WELL-FORMED position": FenWellFormed.tla damages legal positions by edits that keep the FEN text
    # perfectly well formed (side to move flipped, en-passant square set, castling right added, piece removed / put, king moved);
    # every string the engine ACCEPTS - of this and the other families - is judged by the specification's WellFormed on the
    # position the engine then holds (its own FEN output), and must be usable (make / take back every move to depth 2)
    root_fens = [l.split("#")[0].strip() for l in open(os.path.join(VERIF, "corpus", "roots.fen")) if l.split("#")[0].strip()]
    wcfg = ('INIT Init\nNEXT Next\nCONSTANTS\n Mode = "gen"\n RootsFile = "roots.ndjson"\n JudgeFile = ""\n MaxDamage = %d\n Thin = %d\n'
            'INVARIANTS Obs RootsWellFormed\nCHECK_DEADLOCK FALSE\n')
    gens = [vlib.tlc("FenWellFormed", wcfg % (1, 4 if quick else 1), files={"roots.ndjson": roots_ndjson(root_fens)}, workers=8, tag="fenwf-gen", timeout=3600)]
    if not quick:   # two edits (thinned): an ill-formed field next to another one, or repaired by the second edit
        gens.append(vlib.tlc("FenWellFormed", wcfg % (2, 16), files={"roots.ndjson": roots_ndjson(root_fens[::4])}, workers=16, tag="fenwf-gen2", timeout=7200))
    run = vlib.scratch("fen")
    try:
        dam, why_in = set(), {}
        for g in gens:
            ck.add_tlc(g)
            for l in vlib.tlc_lines(g, '<<"FENPOS"'):
                d = json.loads(json.loads(l.rstrip("\r\n")[len('<<"FENPOS", '):-2]))
                d["cr"] = [c for c, on in zip("KQkq", d["cr"]) if on]
                f = fenspec.state_to_fen(d)
                dam.add(f)
                why_in[f] = d["why"]
        with open(os.path.join(run, "damaged.txt"), "w") as fh:
            for f in sorted(dam):
                fh.write("%s\t%s\n" % (f, why_in[f]))
        cnt["C16.damaged_positions"] = len(dam)
        res = vlib.run_driver(["fen-fuzz", "-gen", vlib.art_out(fa), "-corpus", os.path.join(VERIF, "corpus", "roots.fen"),
                               "-mut", 5000 if quick else 500000, "-seed", SEED, "-damaged", os.path.join(run, "damaged.txt"),
                               "-accepted", os.path.join(run, "accepted.ndjson"), "-out", os.path.join(run, "res.json")], cwd=run, timeout=3600)
        acc = [json.loads(l) for l in open(os.path.join(run, "accepted.ndjson"))] if os.path.exists(os.path.join(run, "accepted.ndjson")) else []
    finally:
        shutil.rmtree(run, ignore_errors=True)
    ck.add_result(res)
    cnt.update(res["counters"])
    # the judge: WellFormed of ChessRules on what the engine holds for every accepted string
    def viol16(kind, sig, fen, detail, replay):
        ck.discs.append({"prop": "C16", "kind": kind, "sig": sig, "fen": fen, "detail": json.dumps(detail), "replay": replay})
        key = "C16|%s|%s" % (kind, sig)
        ck.disc_count[key] = ck.disc_count.get(key, 0) + 1
    states = []
    for a in acc:
        try:
            states.append(fenspec.fen_to_state(a["out"]))
        except Exception as e:       # the engine's own output is not even a FEN
            viol16("accepted-fen-ill-formed", "fen/ill-formed/output-unreadable", a["in"], {"output": a["out"], "family": a["family"]}, {"fen": a["in"]})
            states.append(None)
    jcfg = 'INIT JInit\nNEXT JNext\nCONSTANTS\n Mode = "judge"\n RootsFile = ""\n JudgeFile = "judge.ndjson"\n MaxDamage = 0\n Thin = 1\nINVARIANT Judge\nCHECK_DEADLOCK FALSE\n'
    CH = 4000
    idx = [i for i, st in enumerate(states) if st is not None]
    judged = 0
    for c0 in range(0, len(idx), CH):
        part = idx[c0:c0 + CH]
        ja = vlib.tlc("FenWellFormed", jcfg, files={"judge.ndjson": "".join(json.dumps(states[i], separators=(",", ":")) + "\n" for i in part)},
                      workers=1, tag="fenwf-judge", timeout=3600, cache=False)
        ck.add_tlc(ja)
        got = {}
        for l in vlib.tlc_lines(ja, '<<"WF"'):
            m = re.match(r'<<"WF", (\d+), "([^"]*)">>', l)
            if m:
                got[int(m.group(1))] = m.group(2)
        shutil.rmtree(ja, ignore_errors=True)
        if len(got) != len(part):
            raise Inconclusive("FenWellFormed judged %d of %d accepted positions" % (len(got), len(part)))
        for k, i in enumerate(part, 1):
            judged += 1
            if got[k]:
                a = acc[i]
                viol16("accepted-fen-ill-formed", "fen/ill-formed/" + got[k], a["in"],
                       {"holds": a["out"], "ill_formed_because": got[k], "family": a["family"]}, {"fen": a["in"], "family": a["family"]})
    cnt["C16.accepted_positions_judged"] = judged
    # legal positions round-trip exactly: every node of the TLC trees
    tree = shared(tier)["tree"]
    ck.add_tlc(tree)
    res2 = chess_replay([tree], ["C16"])
    ck.add_result(res2)
    cnt["C16.legal_fens"] = res2["counters"].get("C16.legal_fens", 0)
    # ---- UCI totality: malformed lines inside otherwise valid sessions
    art, normal, drawn, roots = search_positions(tier, rng)
    nodes = [n for n in normal if len(n["legal"]) >= 2][:40]
    S = ul.send
    scripts, meta = [], {}
    mal = MALFORMED if quick else MALFORMED + [m.upper() for m in MALFORMED[:30]] + [" " + m for m in MALFORMED[:30]]
    for mi, m in enumerate(mal):
        for ctx in ("idle", "searching"):
            n = nodes[(mi * 3 + (ctx == "idle")) % len(nodes)]
            cmd, fen = uci_position_cmd(n)
            steps = [S("uci"), ul.wait("uciok", 3000), S(cmd), ul.sync()]
            if ctx == "idle":
                steps += [S(m), ul.sync(), S("go depth 2"), ul.wait("bestmove", 8000), ul.sync()]
            else:
                steps += [S("go infinite"), ul.sleep(15), S(m), ul.sync(), S("stop"), ul.wait("bestmove", 3000), ul.sync(),
                          S(cmd), S("go depth 1"), ul.wait("bestmove", 8000)]
            sid = len(scripts) + 1
            scripts.append({"id": sid, "name": "malformed/" + ctx, "steps": steps})
            meta[sid] = {"mal": m, "ctx": ctx, "fen": fen}
    # ---- well-formed but unusual lines: they have their normal effect (a go is answered by one bestmove) and nothing else happens
    for ni, n in enumerate(nodes[:(6 if quick else 40)]):
        a_, b_ = fenspec.mv_uci(n["legal"][0]), fenspec.mv_uci(n["legal"][1])
        cmd, fen = uci_position_cmd(n)
        for g in ["go depth 2 searchmoves %s %s" % (a_, a_), "go searchmoves %s %s %s depth 2" % (a_, b_, a_), "go depth 1 depth 2",
                  "go movetime 30 movetime 40", "go wtime 100 btime 100 winc 0 binc 0 movestogo 1", "go nodes 1", "go depth 2 nodes 100 movetime 50",
                  "go wtime 1 btime 1", "go depth 2 searchmoves " + " ".join(fenspec.mv_uci(m_) for m_ in n["legal"]),
                  "go mate 1 depth 2", "go depth 200 nodes 50", "go wtime 50 btime 50 winc 100000 binc 100000",
                  "go nodes 1 depth 0", "go depth 1 movestogo 0 wtime 1000 btime 1000"]:
            steps = [S("uci"), ul.wait("uciok", 3000), S(cmd), ul.sync(), S(g), ul.wait("bestmove", 8000), ul.sync(),
                     S("go depth 1"), ul.wait("bestmove", 8000)]
            sid = len(scripts) + 1
            scripts.append({"id": sid, "name": "unusual/go", "steps": steps})
            meta[sid] = {"mal": g, "ctx": "idle", "fen": fen, "valid": True}
        for o_ in ["setoption name Hash value 0", "setoption name Hash value 1", "setoption name Clear Hash", "ucinewgame", "isready", "debug on",
                   "setoption name Ponder value true", "stop", "ponderhit"]:
            steps = [S("uci"), ul.wait("uciok", 3000), S(cmd), ul.sync(), S(o_), ul.sync(), S(cmd), S("go depth 2"), ul.wait("bestmove", 8000), ul.sync()]
            sid = len(scripts) + 1
            scripts.append({"id": sid, "name": "unusual/idle", "steps": steps})
            meta[sid] = {"mal": o_, "ctx": "idle", "fen": fen, "valid": True, "keeps_position": o_ != "ucinewgame"}
    # options that allocate, free or replace something (hash table, book), in every ordered pair, on a FRESH engine: sent right after
    # uciok, before any isready / go has made the engine build its tables - and the same pairs after a first isready
    structural = ["setoption name Hash value 0", "setoption name Hash value 1", "setoption name Hash value 16", "setoption name Use_Hash value false",
                  "setoption name Use_Hash value true", "setoption name Clear Hash", "setoption name Use_Book value false", "setoption name Ponder value false",
                  "setoption name Print Config", "ucinewgame"]
    n0 = nodes[0]
    cmd0, fen0 = uci_position_cmd(n0)
    pairs = [(a_, b_) for a_ in structural for b_ in structural]
    if quick:
        pairs = [pr for k_, pr in enumerate(pairs) if k_ % 2 == SEED % 2 or "Hash" in pr[0] and "Hash" in pr[1]]
    for a_, b_ in pairs:
        for warm in (False, True):
            if warm and quick and (a_, b_) not in pairs[::3]:
                continue
            steps = [S("uci"), ul.wait("uciok", 3000)] + ([ul.sync()] if warm else []) + [S(a_), S(b_), S(cmd0), ul.sync(), S("go depth 1"), ul.wait("bestmove", 8000), ul.sync()]
            sid = len(scripts) + 1
            scripts.append({"id": sid, "name": "unusual/options-" + ("warm" if warm else "fresh"), "steps": steps})
            meta[sid] = {"mal": a_ + " ; " + b_, "ctx": "warm" if warm else "fresh", "fen": fen0, "valid": True, "skip_fens": 1 if warm else 0}
    # a long but supported game: 380 half moves of knight shuffles (the position is the initial one with its clocks advanced)
    long_game = "position startpos moves " + " ".join(["g1f3", "g8f6", "f3g1", "f6g8"] * 95)
    sid = len(scripts) + 1
    scripts.append({"id": sid, "name": "unusual/long-game", "steps": [S("uci"), ul.wait("uciok", 3000), S(long_game), ul.sync(), S("go depth 2"),
                                                                      ul.wait("bestmove", 8000), ul.sync()]})
    meta[sid] = {"mal": long_game, "ctx": "idle", "fen": "rnbqkbnr/pppppppp/8/8/8/8/PPPPPPPP/RNBQKBNR w KQkq - 380 191", "valid": True}
    res3 = ul.run_sessions(scripts)
    for sc in scripts:         # time-outs are confirmed by a second run of the session alone
        r = res3[sc["id"]]
        if r["rc"] == -9 or any(e["ev"] == "timeout" for e in r["events"]):
            again = ul.run_sessions([sc], procs=1, timeout=120)[sc["id"]]
            if again["rc"] == 0 and not any(e["ev"] == "timeout" for e in again["events"]):
                res3[sc["id"]] = again

    def disc(kind, sig, sid, detail):
        ck.discs.append({"prop": "C16", "kind": kind, "sig": sig, "fen": "", "detail": detail,
                         "replay": {"script": scripts[sid - 1], "events": res3[sid]["events"][-40:]}})
        key = "C16|%s|%s" % (kind, sig)
        ck.disc_count[key] = ck.disc_count.get(key, 0) + 1
    traces = {}
    for sc in scripts:
        sid, r, m = sc["id"], res3[sc["id"]], meta[sc["id"]]
        ev = r["events"]
        word = (m["mal"].split() or ["<blank>"])[0][:12] + ("/" + m["mal"].split()[1][:10] if len(m["mal"].split()) > 1 else "")
        if r["rc"] != 0 or not ev or ev[-1]["ev"] != "end":
            disc("engine-dies", "uci/crash/" + word, sid, {"line": m["mal"][:200], "context": m["ctx"], "rc": r["rc"], "stderr": r["stderr"][-600:]})
            continue
        if ev[-1].get("line") != "loop-exited":
            disc("engine-unresponsive", "uci/quit-ignored/" + word, sid, {"line": m["mal"][:200]})
            continue
        for e in ev:
            if e["ev"] == "timeout":
                disc("engine-unresponsive", "uci/no-" + e.get("line", "") + "/" + word, sid, {"line": m["mal"][:200], "context": m["ctx"]})
        fens = [e.get("line", "") for e in ev if e["ev"] == "fen"][m.get("skip_fens", 0):]
        if len(fens) >= 2 and fens[1] != fens[0] and m.get("keeps_position", True):
            disc("position-lost", "uci/position-changed/" + word, sid, {"line": m["mal"][:200], "before": fens[0], "after": fens[1]})
        if fens and fens[0] != m["fen"]:
            disc("position-command", "position/fen-differs", sid, {"engine": fens[0], "specification": m["fen"]})
        traces[sid] = ul.trace_of(ev, malformed_lines=(() if m.get("valid") else (m["mal"],)))
    verdicts, st = ul.validate(traces, tag="uci16-trace")
    ck.cov["states"] += st[0]
    ck.cov["transitions"] += st[1]
    nacc = 0
    for sid, (ok, dia) in verdicts.items():
        if ok:
            nacc += 1
        else:
            tr = traces[sid]
            bad = tr[dia - 1] if dia - 1 < len(tr) else {"ev": "end"}
            m = meta[sid]
            word = (m["mal"].split() or ["<blank>"])[0][:12]
            disc("malformed-line-had-an-effect", "uci/effect/" + word + "/" + bad["ev"] + "-" + bad.get("cmd", ""), sid,
                 {"line": m["mal"][:200], "context": m["ctx"], "rejected_wire_line": bad})
    cnt["uci_sessions"] = len(scripts)
    cnt["uci_sessions_accepted_by_spec"] = nacc
    ck.cov["evaluations"] = cnt.get("C16.fen_strings", 0) + cnt["C16.legal_fens"] + len(scripts)
    ck.cov["distinct_nontrivial"] = cnt.get("C16.nontrivial", 0) + len(scripts)
    ck.cov["traces_validated_against_impl"] = nacc + cnt["C16.legal_fens"]
    ck.cov["counters"] = cnt
    ck.cov["rule"] = ("FEN: every string of the structured family generated by FenInput.tla (token sequences for the first ranks, every field "
                      "replaced by bad values, truncations) and seeded byte-level mutants of corpus FENs - error, or a position that round-trips "
                      "and answers queries, never a panic or hang; legal positions damaged by FenWellFormed.tla with edits that keep the FEN text well formed (side flipped, en-passant square set, castling right added, piece removed / put, king moved): every ACCEPTED string of all families is judged by the specification's WellFormed on the position the engine holds for it, and every move of it is made and taken back to depth 2; every node FEN of the TLC trees round-trips exactly. UCI: each line of a "
                      "malformed-command catalogue inserted into valid sessions while idle and while searching, in a child process: the engine "
                      "must survive, answer isready, keep its position, and the session must stay a behaviour of UciSession.tla with the "
                      "malformed line as a no-op; non-trivial = generated/mutated strings and malformed sessions")
    ck.cov["samples"] = (ck.cov["samples"] or []) + [{"malformed_line": m[:80]} for m in MALFORMED[:3]]
    return ck.finish()


def gob_boundaries(blob):
    """Offsets at which a gob stream can be cut between two messages (each message is a byte count followed by that many bytes;
    counts below 128 take one byte, larger ones a negated length byte and the big-endian value)."""
    out, i = [], 0
    while i < len(blob):
        b0 = blob[i]
        if b0 < 128:
            n, i = b0, i + 1
        else:
            k = 256 - b0
            if k > 8 or i + 1 + k > len(blob):
                break
            n, i = int.from_bytes(blob[i + 1:i + 1 + k], "big"), i + 1 + k
        i += n
        if i > len(blob):
            break
        out.append(i)
    return out


def book_games(tier):
    n, d = (300, 16) if tier == "quick" else (5000, 40)
    art = vlib.tlc("ChessGame", game_cfg(d, d, ["Move"], ["san"], walks=n, walkseed=SEED),
                   files={"roots.ndjson": roots_ndjson([START_FEN])}, workers=16, tag="bookgames", timeout=4 * 3600)
    nodes, games = bl.load_games(art, d)
    # ... and games that come home: every game of a second walk starts 1. Nf3 Nf6 2. Ng1 Ng8 and goes on from the initial
    # position - the root of the book is then reached by moves as well, not only as the start of a line
    cfg = game_cfg(d + 4, d + 4, ["Move"], ["san"], walks=max(8, n // 15), walkseed=SEED + 77).replace("INIT Init", "INIT PInit")
    art2 = vlib.tlc("ChessGamePrefix", cfg, files={"roots.ndjson": roots_ndjson([START_FEN])}, workers=8, tag="bookgames-home", timeout=4 * 3600)
    nodes2, games2 = bl.load_games(art2, d + 4)
    nodes.update(nodes2)
    games = games2 + games          # first, so that every sample of the collection contains some
    return art, nodes, games


def check_C19(tier):
    ck = Check("C19", tier)
    quick = tier == "quick"
    rng = random.Random(SEED)
    cnt = {}

    def disc(kind, sig, detail, replay=None):
        ck.discs.append({"prop": "C19", "kind": kind, "sig": sig, "fen": "", "detail": detail, "replay": replay or {}})
        key = "C19|%s|%s" % (kind, sig)
        ck.disc_count[key] = ck.disc_count.get(key, 0) + 1
    # ---- 1. the build protocol, all interleavings (abstract instance)
    cfg = "SPECIFICATION Spec\nCONSTANTS\n  Games <- MCGames\nINVARIANTS SchedIndependent LinksSound OneParent\nCHECK_DEADLOCK FALSE\n"
    a0 = vlib.tlc("BookBuild", cfg, workers=8, tag="book-mc", keep_out=False)
    ck.add_tlc(a0)
    # ---- 2. games: behaviours of ChessGame from the start position
    art, nodes, games = book_games(tier)
    ck.add_tlc(art)
    cnt["games"] = len(games)
    cnt["distinct_games"] = len(set(games))
    count, edges = bl.expected_book(nodes, games)
    keys = bl.keys_of(list(count))
    exp_pos = {keys[i]: c for i, c in count.items()}
    exp_edges = {(keys[a], m): keys[b] for (a, m), b in edges.items()}
    if len(exp_pos) != len(count):
        raise Inconclusive("two position identities share an engine key")
    cnt["positions"] = len(exp_pos)
    cnt["transposed_positions"] = sum(1 for i in count if len({a for (a, m), b in edges.items() if b == i}) > 1)

    def compare(dump, label, exp_pos=exp_pos, exp_edges=exp_edges, replay=None):
        pos, links = bl.book_summary(dump)
        missing = [k for k in exp_pos if k not in pos]
        extra = [k for k in pos if k not in exp_pos]
        wrong = [k for k in exp_pos if k in pos and pos[k] != exp_pos[k]]
        if missing or extra or wrong:
            disc("book-content", "content/" + label, {"missing_positions": len(missing), "extra_positions": len(extra), "wrong_counters": len(wrong),
                                                       "example": (missing + extra + wrong)[:3]}, replay)
        seen = set()
        for e in (dump.get("entries") or []):
            ms = [m["m"] for m in e["moves"]]
            if len(ms) != len(set(ms)):
                disc("move-offered-twice", "links/duplicate/" + label, {"key": e["key"], "moves": [fenspec.mv_uci(m) for m in ms]}, replay)
            for m in e["moves"]:
                want = exp_edges.get((e["key"], m["m"]))
                if want is None:
                    disc("offered-move-not-playable", "links/not-a-played-legal-move/" + label, {"key": e["key"], "move": fenspec.mv_uci(m["m"])}, replay)
                elif want != m["next"]:
                    disc("offered-move-wrong-successor", "links/wrong-successor/" + label, {"key": e["key"], "move": fenspec.mv_uci(m["m"])}, replay)
                seen.add(m["next"])
        orphans = [k for k in pos if k not in seen and k != dump["root"]]
        if orphans:
            disc("position-not-linked", "links/orphan/" + label, {"count": len(orphans)}, replay)
        return pos
    # ---- 3. the three formats
    promo_free = [g for g in games if all(m < 4096 for m in g)]
    texts = {
        "Simple": "\n".join(bl.render_simple(g) for g in games if g in set(promo_free)) + "\n",
        "San": "\n".join(bl.render_san(nodes, g, rng.choice(["1-0", "0-1", "1/2-1/2"])) for g in games) + "\n",
        "Pgn": "\n".join(bl.render_pgn(nodes, g, rng, i) for i, g in enumerate(games)),
    }
    dumps = {}
    for fmt, text in texts.items():
        dump, rc, err, _ = bl.book_run(text, fmt)
        cnt["builds"] = cnt.get("builds", 0) + 1
        if dump is None:
            disc("build-fails", "build-fails/" + fmt, {"rc": rc, "stderr": err})
            continue
        if fmt == "Simple" and len(promo_free) != len(games):
            c2, e2 = bl.expected_book(nodes, promo_free)
            dumps[fmt] = compare(dump, fmt, {keys[i]: c for i, c in c2.items()}, {(keys[a], m): keys[b] for (a, m), b in e2.items()})
        else:
            dumps[fmt] = compare(dump, fmt)
    # ---- 4. a line with an illegal / unreadable move contributes exactly its legal prefix
    # tokens that denote no legal move in ANY position (the book reader matches unanchored, so free text is
    # avoided): a pawn move to the last rank without promotion piece, a queen move to rank 9, a null move
    bad_tokens = {"San": ["e1", "e8", "a8", "h1", "Qh9", "Zz"], "Simple": ["a1a1", "h8h8", "e4e4"]}
    for fmt in ("San", "Simple"):
        cut_games, lines = [], []
        for gi, g in enumerate(games[:(120 if quick else 3000)]):
            if fmt == "Simple" and any(m >= 4096 for m in g):
                continue
            k = rng.randint(0, len(g) - 1)
            tok = rng.choice(bad_tokens[fmt])
            if fmt == "San":
                toks = []
                for j in range(len(g)):
                    if j % 2 == 0:
                        toks.append("%d." % (j // 2 + 1))
                    toks.append(tok if j == k else bl.move_san(nodes, g, j))
                lines.append(" ".join(toks) + " 1-0")
            else:
                lines.append("".join(tok if j == k else fenspec.mv_uci(g[j])[:4] for j in range(len(g))))
            cut_games.append(g[:k])
        c3, e3 = bl.expected_book(nodes, cut_games)
        dump, rc, err, _ = bl.book_run("\n".join(lines) + "\n", fmt)
        cnt["builds"] += 1
        if dump is None:
            disc("build-fails", "build-fails/illegal-move/" + fmt, {"rc": rc, "stderr": err})
        else:
            compare(dump, "illegal-move-prefix/" + fmt, {keys[i]: c for i, c in c3.items()}, {(keys[a], m): keys[b] for (a, m), b in e3.items()})
    # ---- 5. scheduling: the same build under different GOMAXPROCS, and under the race detector
    for mp in (1, 4, 16):
        for rep in range(1 if quick else 5):
            dump, rc, err, _ = bl.book_run(texts["San"], "San", maxprocs=mp)
            cnt["builds"] += 1
            if dump is None:
                disc("build-fails", "build-fails/maxprocs", {"rc": rc, "stderr": err})
            else:
                compare(dump, "San/maxprocs=%d" % mp)
    dump, rc, err, races = bl.book_run(texts["Pgn"], "Pgn", race=True, timeout=600)
    cnt["builds"] += 1
    import re
    for blk in races.split("WARNING: DATA RACE")[1:]:
        # a report counts for this property when the two conflicting accesses are made by the book code itself (the shared
        # book map and its entries): the innermost engine frame of both stacks lies in internal/openingbook
        tops = []
        for stk in re.split(r"\n\n", blk.strip())[:2]:
            fr = [f for f in re.findall(r"^\s+(\S+)\(.*?\)\n\s+(\S+?):(\d+)", stk, re.M) if "/internal/" in f[1]]
            if fr:
                tops.append(fr[0])
        if len(tops) == 2 and all("/internal/openingbook/" in t[1] for t in tops):
            disc("data-race", "race/openingbook", blk[:1200])
    # ---- 6. replay of TLC interleavings through the scheduler gate of addToBook
    shortg = sorted(set(g[:3] for g in games))
    byfirst = {}
    for g in shortg:
        byfirst.setdefault(g[0], []).append(g)
    # three games with pairwise different first moves (the gate identifies a goroutine by its first step), two of
    # which transpose into the same position - that is where the move link depends on the schedule
    trio = None
    ends = {}
    for g in shortg:
        ends.setdefault(bl.ident(nodes[g]), []).append(g)
    for idn, gs in ends.items():
        pair = [(a, b) for a in gs for b in gs if a[0] < b[0]]
        if pair:
            a, b = pair[0]
            third = [g for g in shortg if g[0] not in (a[0], b[0])]
            if third:
                trio = [a, b, third[0]]
                break
    if trio is None:
        firsts = sorted(byfirst)
        trio = [byfirst[f][0] for f in firsts[:3]]
    if len(trio) < 3:
        raise Inconclusive("the generated games do not contain three different first moves")
    ids = {bl.ident(nodes[()]): 0}
    tg = []
    for g in trio:
        steps = []
        for k in range(1, 4):
            a, b = bl.ident(nodes[g[:k - 1]]), bl.ident(nodes[g[:k]])
            for x in (a, b):
                ids.setdefault(x, len(ids))
            steps.append("<<%d, %d, %d>>" % (ids[a], g[k - 1], ids[b]))
        tg.append("<<" + ", ".join(steps) + ">>")
    mc = ("---- MODULE BookBuildMC ----\nEXTENDS BookBuild\nRealGames == <<" + ", ".join(tg) + ">>\n====\n")
    cfg2 = "SPECIFICATION Spec\nCONSTANTS\n  Games <- RealGames\nINVARIANTS SchedIndependent LinksSound OneParent Final\nCHECK_DEADLOCK FALSE\n"
    a2 = vlib.tlc("BookBuildMC", cfg2, files={"BookBuildMC.tla": mc}, workers=8, tag="book-real")
    ck.add_tlc(a2)
    finals = []
    for l in vlib.tlc_lines(a2, '<<"BOOKFINAL"'):
        finals.append(json.loads(json.loads(l.rstrip()[len('<<"BOOKFINAL", '):-2])))
    cnt["interleavings"] = len(finals)
    outcomes = {}
    for f in finals:
        outcomes.setdefault(json.dumps(sorted(f["links"])), []).append(f)
    cnt["distinct_link_outcomes"] = len(outcomes)
    pick = [v[0] for v in outcomes.values()] + rng.sample(finals, min(len(finals), 30 if quick else 1500))
    inv = {v: k for k, v in ids.items()}
    kk = bl.keys_of(list(ids))
    text3 = "\n".join(bl.render_san(nodes, g) for g in trio) + "\n"
    nrep = 0
    for f in pick:
        schedule = []
        for (g, st_) in f["order"]:
            if st_ == 0:
                continue
            path = trio[g - 1]
            schedule.append([kk[bl.ident(nodes[path[:st_ - 1]])], kk[bl.ident(nodes[path[:st_]])]])
        dump, rc, err, _ = bl.book_run(text3, "San", schedule=schedule, timeout=20)
        nrep += 1
        if dump is None:
            disc("forced-interleaving-fails", "schedule/build-fails", {"rc": rc, "stderr": err, "order": f["order"]})
            continue
        pos, links = bl.book_summary(dump)
        want = {(kk[inv[p]], m): kk[inv[c]] for (p, m, c) in f["links"]}
        if links != want:
            disc("links-differ-from-model", "schedule/links", {"order": f["order"], "engine": len(links), "model": len(want)},
                 {"schedule": schedule, "games": [render for render in text3.splitlines()]})
    cnt["interleavings_replayed"] = nrep
    ck.cov["evaluations"] = cnt["builds"] + nrep
    ck.cov["distinct_nontrivial"] = cnt["distinct_games"]
    ck.cov["traces_validated_against_impl"] = nrep + cnt["builds"]
    ck.cov["counters"] = cnt
    ck.cov["rule"] = ("BookBuild.tla model-checked for all interleavings; %d games generated by ChessGame.tla from the start position (shared "
                      "prefixes, transpositions, duplicates) rendered as Simple / SAN / PGN (tags, comments, NAGs, nested variations, %% lines) "
                      "and built with the real package: positions and visit counts against the sequential fold, every offered move against the "
                      "played legal edges; illegal tokens mid-line; GOMAXPROCS 1/4/16; race detector; interleavings of three real games "
                      "enumerated by TLC and forced through the addToBook gate, links compared with the model; non-trivial = distinct games"
                      % len(games))
    ck.cov["samples"] = [bl.render_san(nodes, games[0]), texts["Pgn"][:400]]
    ck.assumptions.append("cross-format equality with the Simple format on promotion-free games only (the format has no promotion syntax)")
    return ck.finish()


def check_C20(tier):
    ck = Check("C20", tier, level="fault_enumeration")
    quick = tier == "quick"
    rng = random.Random(SEED)
    import concurrent.futures
    import shutil
    cnt = {}

    def disc(kind, sig, detail, replay=None):
        ck.discs.append({"prop": "C20", "kind": kind, "sig": sig, "fen": "", "detail": detail, "replay": replay or {}})
        key = "C20|%s|%s" % (kind, sig)
        ck.disc_count[key] = ck.disc_count.get(key, 0) + 1
    # the model: every file state x two initialisations in a row
    cfg = ("SPECIFICATION Spec\nCONSTANTS\n  Rounds = 3\n  FixUnlock = TRUE\nINVARIANTS TypeOK NoHang ResultIsSourceBook\n"
           "PROPERTIES Terminates CacheRepaired\nCHECK_DEADLOCK FALSE\n")
    a = vlib.tlc("BookCache", cfg, workers=4, tag="bookcache-mc", keep_out=False)
    ck.add_tlc(a)
    art, nodes, games = book_games(tier)
    # a big book (more than 8,192 positions: every path TLC visited around the walks is a legal game prefix) - its cache file
    # is several gob messages long in formats that write the map in pieces, and is cut at every message boundary below
    nbig = 1200 if quick else 2500
    bigart = vlib.tlc("ChessGame", game_cfg(16, 16, ["Move"], ["san"], walks=nbig, walkseed=SEED + 5),
                      files={"roots.ndjson": roots_ndjson([START_FEN])}, workers=16, tag="bookgames-big", timeout=4 * 3600)
    ck.add_tlc(bigart)
    bnodes, big = bl.load_games(bigart, 16)
    nodes = dict(nodes)
    nodes.update(bnodes)
    cnt["big_book_positions"] = len(bnodes)
    books = [("small", games[:3])] + ([] if quick else [("large", games[:500])]) + [("big", big)]
    nfaults = 0
    for bname, gs in books:
        text = "\n".join(bl.render_san(nodes, g) for g in gs) + "\n"
        ref, rc, err, _ = bl.book_run(text, "San")                        # the book of the source file
        if ref is None:
            raise Inconclusive("reference build failed: " + err)
        refsum = bl.book_summary(ref)
        run = vlib.scratch("cache")
        try:
            d1, rc, err, _ = bl.book_run(text, "San", cache=True, keep_dir=run)       # writes the cache
            blob = open(os.path.join(run, "book.txt.cache"), "rb").read()
            # round trip: save -> load equals build
            d2, rc, err, _ = bl.book_run(None, "San", cache=True, keep_dir=run)
            # (which parent carries the link to a transposed position depends on the schedule of the build: the loaded book is
            # compared in full with the build that wrote the cache, and by positions and counters with the reference build)
            if d2 is None or d1 is None or bl.book_summary(d2) != bl.book_summary(d1) or bl.book_summary(d1)[0] != refsum[0]:
                disc("cache-round-trip", "roundtrip/" + bname, {"rc": rc, "stderr": err})
        finally:
            shutil.rmtree(run, ignore_errors=True)
        cnt["cache_bytes_" + bname] = len(blob)
        # crash points of the save: every prefix length of a small file; for larger ones the first bytes, a stride, and - the
        # places where a writer that works in pieces stops - the boundaries of the gob messages the file consists of
        bounds = gob_boundaries(blob)
        cnt["gob_messages_" + bname] = len(bounds)
        if len(blob) <= 4096:
            cuts = list(range(len(blob)))
        elif bname == "big":
            cuts = sorted(set(list(range(0, 64)) + list(range(64, len(blob), max(4096, len(blob) // 40)))
                              + [b_ + d_ for b_ in bounds for d_ in (-1, 0, 1) if 0 <= b_ + d_ < len(blob)]))
        else:
            cuts = sorted(set(list(range(0, 4096)) + list(range(4096, len(blob), 64)) + [b_ for b_ in bounds if b_ < len(blob)]))
        faults = [("prefix", n, blob[:n]) for n in cuts]
        if bname == "big":
            # the order in which a map is written differs from save to save: two more saves of the same book, cut at their
            # message boundaries (which entries a piece holds decides what a reader of the cut file can notice)
            for extra in range(2):
                run2 = vlib.scratch("cache")
                try:
                    bl.book_run(text, "San", cache=True, keep_dir=run2)
                    blob2 = open(os.path.join(run2, "book.txt.cache"), "rb").read()
                finally:
                    shutil.rmtree(run2, ignore_errors=True)
                faults += [("prefix", 1000000 * (extra + 1) + b_, blob2[:b_]) for b_ in gob_boundaries(blob2) if b_ < len(blob2)]
        for i in range(0 if bname == "big" else 30 if quick else 500):
            b = bytearray(blob)
            for _ in range(rng.randint(1, 4)):
                b[rng.randrange(len(b))] ^= 1 << rng.randrange(8)
            faults.append(("bitflip", i, bytes(b)))
        # single bytes inverted, spread over the whole file (damage inside the value part of the gob stream makes the decoder
        # fail AFTER it has delivered some entries)
        for i in range(3, len(blob), max(1, len(blob) // (12 if bname == "big" else 150 if quick else 1200))):
            b = bytearray(blob)
            b[i] ^= 0xFF
            faults.append(("invert", i, bytes(b)))
        faults += [("garbage", 0, b"\x00" * 100), ("garbage", 1, bytes(rng.randrange(256) for _ in range(300))), ("missing", 0, None)]
        # which of the damaged (non-prefix) files are undecodable? asked of the gob decoder itself, on a fresh map
        pdir = vlib.scratch("probe")
        try:
            os.makedirs(os.path.join(pdir, "f"))
            for kind, n, data in faults:
                if kind in ("bitflip", "invert"):
                    with open(os.path.join(pdir, "f", "%s-%d" % (kind, n)), "wb") as fh:
                        fh.write(data)
            vlib.run_driver(["gob-probe", "-dir", os.path.join(pdir, "f"), "-out", os.path.join(pdir, "probe.json")], cwd=pdir, load=False)
            decodes = json.load(open(os.path.join(pdir, "probe.json")))
        finally:
            shutil.rmtree(pdir, ignore_errors=True)

        hangs = [0]

        def one(f):
            kind, n, data = f
            if hangs[0] >= 24:            # the defect is established: do not wait for hundreds of watchdogs
                return f, "skipped", 0, ""
            # two initialisations in a row in one process: a new Book object each time, or - every other fault case - the
            # same object with Reset() in between
            # same object with Reset() in between, and then the cache is damaged WHILE the program runs: it builds (or loads) its
            # book, the file is replaced by the damaged one, and the same object is reset and initialised again
            if n % 2 == 1 and data is not None:
                dump, rc, err, _ = bl.book_run(text, "San", cache=True, rounds=2, timeout=8, reuse=True, damage_before_last=data)
            else:
                dump, rc, err, _ = bl.book_run(text, "San", cache=True, rounds=2, prefile=data, timeout=8)
            if dump is None and rc == -9:
                hangs[0] += 1
            return f, dump, rc, err
        with concurrent.futures.ThreadPoolExecutor(max_workers=12) as ex:
            for (kind, n, data), dump, rc, err in ex.map(one, faults):
                if dump == "skipped":
                    cnt["skipped_after_repeated_hangs"] = cnt.get("skipped_after_repeated_hangs", 0) + 1
                    continue
                nfaults += 1
                tag = kind if kind != "prefix" else ("prefix/empty" if n == 0 else "prefix")
                if dump is None:
                    hang = rc == -9
                    disc("initialisation-%s" % ("hangs" if hang else "crashes"), "cache/%s/%s" % ("hang" if hang else "crash", tag),
                         {"book": bname, "fault": kind, "at_byte": n, "rc": rc, "stderr": err[-400:]},
                         {"fault": kind, "bytes": n, "book_text": text[:2000]})
                elif kind in ("bitflip", "invert") and decodes.get("%s-%d" % (kind, n), False):
                    cnt["damaged_but_decodable"] = cnt.get("damaged_but_decodable", 0) + 1    # not "undecodable": the claim does not apply
                elif bl.book_summary(dump)[0] != refsum[0]:
                    got = bl.book_summary(dump)[0]
                    disc("wrong-book-after-damaged-cache", "cache/wrong-book/" + tag,
                         {"book": bname, "fault": kind, "at_byte": n, "positions": len(got), "positions_expected": len(refsum[0]),
                          "counters_differ": sum(1 for k_ in got if refsum[0].get(k_) != got[k_])})
                elif kind in ("bitflip", "invert"):
                    cnt["undecodable_damaged_files_recovered"] = cnt.get("undecodable_damaged_files_recovered", 0) + 1
    cnt["fault_cases"] = nfaults
    ck.cov["evaluations"] = nfaults
    ck.cov["distinct_nontrivial"] = nfaults
    ck.cov["traces_validated_against_impl"] = nfaults
    ck.cov["exhaustive"] = True
    ck.cov["counters"] = cnt
    ck.cov["rule"] = ("BookCache.tla model-checked (every file state x three initialisations, liveness under fairness); on the real code every "
                      "prefix length of the written cache file (every crash point of the non-atomic save), seeded bit flips, garbage and a "
                      "missing file: a child process initialises the book twice in a row under a watchdog and must end with the book of the "
                      "source file; non-trivial = all fault cases")
    ck.cov["samples"] = [{"fault": "prefix", "bytes": 17}, {"fault": "bitflip"}, {"fault": "missing"}]
    ck.assumptions.append("a damaged (non-prefix) variant that the gob decoder still accepts (asked on a fresh map) is not 'undecodable' and is only counted")
    return ck.finish()


def getattr_default(name):
    """Default value of a boolean search switch (mirrors internal/config/searchconfig.go; only used to
    flip single switches - a wrong entry merely changes which configuration is explored)."""
    off = {"UseThreatExt", "UseEvalTT"}
    return name not in off


def tt_cfg(nslots, tags, depths, vals, types, moves, maxage, maxops, chains, seed, extra=""):
    def st(x):
        return x if isinstance(x, str) else "{" + ", ".join(map(str, x)) + "}"
    return ("SPECIFICATION Spec\nCONSTANTS\n  NSlots = %d\n  Tags = %s\n  Depths %s\n  Vals %s\n  Types = %s\n  Moves = %s\n"
            "  MaxAge = %d\n  MaxOps = %d\n  Chains = %d\n  Seed = %d\n%sCHECK_DEADLOCK FALSE\n"
            % (nslots, st(tags), depths, vals, st(types), st(moves), maxage, maxops, chains, seed, extra))


def check_C11(tier):
    ck = Check("C11", tier)
    quick = tier == "quick"
    # 1. the abstract model, exhaustively (history variables hidden by the VIEW)
    dset = "= {0, 1}" if quick else "= {0, 1, 2}"
    vset = "= {0, 1}" if quick else "= {0, 1, 2}"
    a1 = vlib.tlc("TT", tt_cfg(2, [1, 2], dset, vset, [1, 2], [0, 1], 3, 60, 0, 1,
                               "VIEW absView\nINVARIANTS TypeOK LookupIntact CountExact\nPROPERTIES EvictionRule NoSilentLoss\n"),
                  workers=16, tag="tt-exh", keep_out=False)
    ck.add_tlc(a1)
    # 2. generator: pseudo-random chains over colliding keys, boundary depths and values
    nch, nops = (100, 200) if quick else (2000, 500)
    a2 = vlib.tlc("TT", tt_cfg(4, [1, 2, 3, 4], "<- ChainDepths", "<- ChainVals", [1, 2, 3], [0, 1, 2], 100, nops, nch, SEED,
                               "INVARIANTS TypeOK LookupIntact CountExact Obs\nPROPERTIES EvictionRule NoSilentLoss\n"),
                  workers=16, tag="tt-chains", timeout=4 * 3600)
    ck.add_tlc(a2)
    run = vlib.scratch("tt")
    try:
        res = vlib.run_driver(["tt-replay", "-obs", vlib.art_out(a2), "-out", os.path.join(run, "res.json")], cwd=run)
        ck.add_result(res)
        cnt = dict(res["counters"])
        # 3. the other direction: histories driven on the real table, validated by TTTrace
        ntr, ln = (20, 300) if quick else (8 * 40, 500)
        files = 1 if quick else 8
        accepted = 0
        for k in range(files):
            tf = os.path.join(run, "tt%d.ndjson" % k)
            vlib.run_driver(["tt-record", "-trace", tf, "-num", ntr // files, "-len", ln, "-seed", SEED * 100 + k], cwd=run)
            trace = open(tf).read()
            nlines = trace.count("\n")
            cfg = tt_cfg(4, [1, 2, 3, 4], "<- ChainDepths", "<- ChainVals", [1, 2, 3], [0, 1, 2], 1000, 100000000, 1, 1,
                         '  TraceFile = "trace.ndjson"\nINVARIANTS TypeOK LookupIntact CountExact\nPOSTCONDITION TraceAccepted\n').replace(
                             "SPECIFICATION Spec", "SPECIFICATION TSpec").replace("CONSTANTS\n", "CONSTANTS\n", 1)
            # constants block must contain TraceFile: move it up
            cfg = cfg.replace('  TraceFile = "trace.ndjson"\n', "").replace("CONSTANTS\n", 'CONSTANTS\n  TraceFile = "trace.ndjson"\n', 1)
            art = vlib.tlc("TTTrace", cfg, files={"trace.ndjson": trace}, workers=1, tag="tt-trace", cache=False, expect_ok=False,
                           keep_out=False)
            st = vlib.art_stats(art)
            import shutil
            shutil.rmtree(art, ignore_errors=True)
            cnt["C11.trace_events"] = cnt.get("C11.trace_events", 0) + nlines
            if st.get("diameter", 0) - 1 == nlines and not st["error"]:
                accepted += ntr // files
            elif st.get("diameter"):
                bad = st["diameter"]          # 1-based line that could not be matched
                lines = trace.splitlines()
                ev = json.loads(lines[bad - 1]) if bad - 1 < len(lines) else {}
                start = max(i for i in range(bad) if '"Reset"' in lines[i])
                d = {"prop": "C11", "kind": "trace-rejected", "sig": "trace/" + ev.get("ev", "?"),
                     "detail": {"event": ev, "line": bad, "note": "the real table's reply is not a step of TT.tla"},
                     "replay": {"trace": [json.loads(x) for x in lines[start:bad]]}}
                ck.discs.append(d)
                ck.disc_count["C11|trace-rejected|" + d["sig"]] = ck.disc_count.get("C11|trace-rejected|" + d["sig"], 0) + 1
            else:
                raise Inconclusive("TTTrace run failed: %s" % st.get("error"))
            ck.cov["states"] += st.get("distinct_states", 0)
            ck.cov["transitions"] += st.get("states_generated", 0)
        cnt["C11.traces_accepted"] = accepted
    finally:
        import shutil
        shutil.rmtree(run, ignore_errors=True)
    ck.cov["evaluations"] = cnt.get("C11.operations", 0) + cnt.get("C11.values_roundtrip", 0) + cnt.get("C11.trace_events", 0)
    ck.cov["distinct_nontrivial"] = cnt.get("C11.nontrivial", 0)
    ck.cov["traces_validated_against_impl"] = cnt.get("C11.behaviours", 0) + accepted
    ck.cov["rule"] = ("TLC-generated operation chains over 4 slots x 4 colliding tags (all boundary depths, draw/mate/extreme values, "
                      "MoveNone) replayed on a real 1 MB table with the full projection compared after each step; every value "
                      "-10000..10000 x 4 moves stored and read back; real random histories validated by TTTrace.tla; "
                      "non-trivial = stores that meet a slot held by a different key")
    ck.cov["counters"] = cnt
    ck.assumptions += ["key 0 is the engine's empty marker and is never used as a key (a Zobrist key of 0 has probability 2^-64)",
                       "AgeEntries is applied fewer than 100 times in a row (the age is an int8)"]
    return ck.finish()


GEO_TABLES = ["knight", "king", "pseudoB", "pseudoR", "pseudoQ", "filesWest", "filesEast", "fileWest", "fileEast",
              "ranksNorth", "ranksSouth", "neighbours", "center", "castle", "pawn", "passed", "ray", "to", "shift",
              "between", "dist", "fileBb", "rankBb", "colourBb", "castleK", "castleQ"]


def art_geometry(tier):
    lines = "inner" if tier == "quick" else "full"
    cfg = ("INIT Init\nNEXT Next\nCONSTANTS\n  Lines = \"%s\"\n  Tables = %s\nINVARIANTS GeoSane Out\nCHECK_DEADLOCK FALSE\n"
           % (lines, tla_set(GEO_TABLES)))
    return vlib.tlc("Geometry", cfg, workers=16, tag="geo-" + lines, timeout=4 * 3600)


def check_C18(tier):
    ck = Check("C18", tier)
    a = art_geometry(tier)
    ck.add_tlc(a)
    run = vlib.scratch("geo")
    try:
        res = vlib.run_driver(["geom", "-obs", vlib.art_out(a), "-seed", SEED, "-out", os.path.join(run, "res.json")], cwd=run)
    finally:
        import shutil
        shutil.rmtree(run, ignore_errors=True)
    ck.add_result(res)
    cnt = res["counters"]
    ck.cov["evaluations"] = cnt.get("C18.queries", 0) + cnt.get("C18.shift_additivity", 0)
    ck.cov["distinct_nontrivial"] = cnt.get("C18.nontrivial", 0)
    ck.cov["traces_validated_against_impl"] = cnt.get("C18.entries", 0)
    ck.cov["exhaustive"] = True
    ck.cov["rule"] = ("every entry of every table enumerated by Geometry.tla (sliding attacks: every occupancy of the %s line squares of "
                      "every square, each queried with three off-line occupancy variants); non-trivial = entries other than the "
                      "empty-occupancy sliding entries" % ("inner (magic-table)" if tier == "quick" else "full"))
    ck.cov["entries_per_table"] = res.get("extra", {}).get("entries_per_table")
    return ck.finish()


CHECKS = {k[6:]: v for k, v in list(globals().items()) if k.startswith("check_C")}


def replay(prop, path):
    """Re-executes the single case stored in a replay file; exit 1 if the discrepancy is still there."""
    import shutil
    d = json.load(open(path))
    rp = d.get("replay") or {}
    run = vlib.scratch("replay")
    try:
        res = None
        if "obs" in rp:                                   # chess family: one observation record and its root
            obs = dict(rp["obs"], root=1)
            with open(os.path.join(run, "roots.ndjson"), "w") as fh:
                fh.write(json.dumps(rp["root"]) + "\n")
            with open(os.path.join(run, "obs.ndjson"), "w") as fh:
                fh.write(json.dumps(obs) + "\n")
            res = vlib.run_driver(["chess-replay", "-roots", os.path.join(run, "roots.ndjson"), "-obs", os.path.join(run, "obs.ndjson"),
                                   "-props", d["prop"], "-seed", SEED, "-out", os.path.join(run, "res.json")], cwd=run)
        elif "fen" in rp and d["prop"] == "C16":
            with open(os.path.join(run, "gen.txt"), "w") as fh:
                fh.write('<<"FEN", %s>>\n' % json.dumps(rp["fen"]))
            res = vlib.run_driver(["fen-fuzz", "-gen", os.path.join(run, "gen.txt"), "-out", os.path.join(run, "res.json")], cwd=run)
        elif "history" in rp:                             # transposition table history
            lines = []
            slots = '[{"tag":-1,"mv":0,"d":0,"v":0,"ty":0,"age":0}]'
            print("history:", json.dumps(rp["history"]))
            print("replay of TT histories: re-run `tools/check.py C11` (histories are regenerated deterministically from the seed)")
            return 2
        elif "script" in rp and "calls" in rp["script"]:
            out, _ = run_life([rp["script"]])
            r = out[0]
            print(json.dumps({"hang": r["hang"], "panic": r["panic"], "results": r["results"],
                              "events": [e["g"] + ":" + e["at"] for e in r["events"]]}, indent=1))
            return 1 if (r["hang"] or r["panic"]) else 0
        elif "script" in rp and "steps" in rp["script"]:
            out = ul.run_sessions([rp["script"]])
            r = out[rp["script"]["id"]]
            for e in r["events"]:
                print(e)
            return 1 if r["rc"] != 0 else 0
        elif "job" in rp:
            recs = sl.run_jobs([rp["job"]], procs=1)
            print(json.dumps(recs[0], indent=1)[:4000])
            return 1 if recs[0]["error"] else 0
        else:
            print("this replay file carries no re-executable payload:", json.dumps(d)[:500])
            return 2
        n = 0
        for x in res["discs"]:
            if x["prop"] == d["prop"]:
                n += 1
                print("VIOLATION property=%s replay=%s  # %s sig=%s" % (d["prop"], path, x["kind"], x["sig"]))
                print(json.dumps(x.get("detail"))[:1500])
        print("replay: %d discrepancies" % n)
        return 1 if n else 0
    finally:
        shutil.rmtree(run, ignore_errors=True)


PUBLISHED_PERFT = {
    "rnbqkbnr/pppppppp/8/8/8/8/PPPPPPPP/RNBQKBNR w KQkq - 0 1": [20, 400, 8902],
    "r3k2r/p1ppqpb1/bn2pnp1/3PN3/1p2P3/2N2Q1p/PPPBBPPP/R3K2R w KQkq - 0 1": [48, 2039, 97862],
    "8/2p5/3p4/KP5r/1R3p1k/8/4P1P1/8 w - - 0 1": [14, 191, 2812],
    "r3k2r/Pppp1ppp/1b3nbN/nP6/BBP1P3/q4N2/Pp1P2PP/R2Q1RK1 w kq - 0 1": [6, 264, 9467],
    "rnbq1k1r/pp1Pbppp/2p5/8/2B5/8/PPP1NnPP/RNBQK2R w KQ - 1 8": [44, 1486, 62379],
    "r4rk1/1pp1qppp/p1np1n2/2b1p1B1/2B1P1b1/P1NP1N2/1PP1QPPP/R4RK1 w - - 0 10": [46, 2079, 89890],
}


def selftest():
    """Validates the machinery itself: (1) ChessRules.tla against the published perft numbers (TLC's
    state counts per level), with the specification's own invariants (LegalCached, MirrorCommutes, SanUnique,
    ClassesPartition, RepImpliesClock) checked on the same run; (2) binding: a recorded engine trace with ONE
    corrupted field must be rejected by the trace specifications."""
    import shutil
    ok = True
    fens = list(PUBLISHED_PERFT)
    a = vlib.tlc("ChessGame", game_cfg(3, 3, ["Move"], [], invariants=("TypeOK", "PosWellFormed", "Obs")),
                 files={"roots.ndjson": roots_ndjson(fens)}, workers=16, tag="selftest-perft", timeout=3600)
    counts = {}
    for l in vlib.tlc_lines(a):
        o = vlib.obs_json(l)
        counts[(o["root"], len(o["path"]))] = counts.get((o["root"], len(o["path"])), 0) + 1
    for i, f in enumerate(fens):
        got = [counts.get((i + 1, d), 0) for d in (1, 2, 3)]
        good = got == PUBLISHED_PERFT[f]
        ok &= good
        print("perft %-70s spec %s published %s %s" % (f, got, PUBLISHED_PERFT[f], "ok" if good else "MISMATCH"))
    b = vlib.tlc("ChessGame", game_cfg(2, 2, ["Move"], [], invariants=("TypeOK", "PosWellFormed", "LegalCached", "RepImpliesClock",
                                                                          "MirrorCommutes", "SanUnique", "ClassesPartition")),
                 files={"roots.ndjson": roots_ndjson(root_fens())}, workers=16, tag="selftest-inv", timeout=3600, keep_out=False)
    print("spec invariants on %d states: ok" % vlib.art_stats(b)["distinct_states"])
    # binding: corrupt one field of a recorded trace
    run = vlib.scratch("selftest")
    try:
        with open(os.path.join(run, "roots.ndjson"), "w") as fh:
            fh.write(roots_ndjson(root_fens()))
        tf = os.path.join(run, "g.ndjson")
        vlib.run_driver(["chess-record", "-roots", os.path.join(run, "roots.ndjson"), "-trace", tf, "-games", 3, "-plies", 40, "-seed", 7], cwd=run)
        lines = open(tf).read().splitlines()
        for what in ("intact", "legal-list", "clock", "move"):
            ls = list(lines)
            k = 20
            while '"Move"' not in ls[k]:
                k += 1
            ev = json.loads(ls[k])
            if what == "legal-list" and ev["legal"]:
                ev["legal"] = ev["legal"][1:]
            elif what == "clock":
                ev["pos"]["hmc"] += 1
            elif what == "move":
                ev["m"] = (ev["m"] + 64) % 4096
            ls[k] = json.dumps(ev)
            trace = "\n".join(ls) + "\n"
            cfg = game_cfg(100000, 100000, ["Move"], [], invariants=("PosWellFormed",)).replace("INIT Init\nNEXT Next", "SPECIFICATION TSpec") \
                .replace("CONSTANTS\n", 'CONSTANTS\n  TraceFile = "trace.ndjson"\n', 1).replace("CHECK_DEADLOCK FALSE", "POSTCONDITION TraceAccepted\nCHECK_DEADLOCK FALSE")
            art = vlib.tlc("ChessGameTrace", cfg, files={"roots.ndjson": roots_ndjson(root_fens()), "trace.ndjson": trace}, workers=1,
                           tag="selftest-trace", cache=False, expect_ok=False, heap="2g")
            st = vlib.art_stats(art)
            shutil.rmtree(art, ignore_errors=True)
            accepted = st.get("diameter", 0) - 1 == len(ls) and not st["error"]
            good = accepted == (what == "intact")
            ok &= good
            print("trace with %-10s : %s %s" % (what, "accepted" if accepted else "rejected at line %s" % st.get("diameter"), "ok" if good else "WRONG"))
    finally:
        shutil.rmtree(run, ignore_errors=True)
    print("selftest", "passed" if ok else "FAILED")
    return 0 if ok else 2


def setup():
    vlib.driver()
    gate_behaviours("quick")
    gate_goal_behaviours("quick")
    shared("quick")
    dfs_arts("quick")
    c10_arts("quick")
    art_material()
    art_geometry("quick")
    print("setup done")
    return 0


def main():
    ap = argparse.ArgumentParser()
    ap.add_argument("what")
    ap.add_argument("--tier", default=os.environ.get("VERIF_TIER", "quick"))
    ap.add_argument("--replay")
    a = ap.parse_args()
    try:
        if a.what == "setup":
            return setup()
        if a.what == "selftest":
            return selftest()
        if a.what == "part":
            # development aid: one part of a check alone, verdict lines only, no evidence file (e.g. `part --replay gate:C14`)
            name, prop = a.replay.split(":")
            ck = Check(prop, a.tier)
            {"gate": lambda: gate_replay(ck, prop, a.tier)}[name]()
            for d in ck.discs[:12]:
                print("DISC", d["kind"], d["sig"], json.dumps(d["detail"])[:300])
            print("NOTES", [n_ for n_ in ck.notes if "DRIFT" in n_][:12])
            print("COUNTERS", ck.cov.get("counters"))
            print("disc_count", ck.disc_count)
            return 1 if ck.discs else 0
        if a.what not in CHECKS:
            print("unknown check", a.what)
            return 2
        if a.replay:
            return replay(a.what, a.replay)
        return CHECKS[a.what](a.tier)
    except Inconclusive as e:
        print("INCONCLUSIVE: %s" % e)
        return 2
    except Exception:
        traceback.print_exc()
        print("INCONCLUSIVE: orchestrator error")
        return 2


if __name__ == "__main__":
    sys.exit(main())
