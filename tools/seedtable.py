#!/usr/bin/env python3
"""Writes seeded/README.md from the meta.json files of the archived seeded changes."""
import glob
import json
import os

ROOT = os.path.dirname(os.path.dirname(os.path.abspath(__file__)))
rows = []
for d in sorted(glob.glob(os.path.join(ROOT, "seeded", "*", "meta.json"))):
    m = json.load(open(d))
    sid = os.path.basename(os.path.dirname(d))
    det = m.get("detected_by", {})
    rows.append((sid, m.get("property", ""), m.get("summary", ""), det.get("check", ""), det.get("result", ""), m.get("missed_before", "")))
out = ["# Seeded changes", "",
       "Each directory holds one change to FrankyGo that breaks one property while the code still compiles and the",
       "repository's tests still pass, written by an independent sub-agent that saw only the property text and a scratch",
       "worktree (nothing of /verif). `patch.diff` applies to /repo (`git -C /repo apply seeded/<id>/patch.diff`, undo with",
       "`git -C /repo checkout -- .`), `demo/` is the sub-agent's failing demonstration test, `meta.json` records what was",
       "confirmed and which check reports the change. None of them is ever committed in /repo.", "",
       "| seeded change | property | what it breaks | caught by | missed at first? |", "|---|---|---|---|---|"]
for sid, prop, summ, chk, res, missed in rows:
    out.append("| `%s` | %s | %s | %s: %s | %s |" % (sid, prop, summ.replace("|", "/"), chk, res.replace("|", "/"), (missed or "no").replace("|", "/")))
out.append("")
out.append("%d changes, %d caught by the check as it stood, %d only after the check was strengthened (the strengthening is described in the last column and is part of the committed check)." % (
    len(rows), sum(1 for r in rows if not r[5]), sum(1 for r in rows if r[5])))
open(os.path.join(ROOT, "seeded", "README.md"), "w").write("\n".join(out) + "\n")
print("\n".join(out[-3:]))
