#!/bin/sh
# seedvalues.sh <seed>... : every quick check on the unchanged tree with other VERIF_SEED values (evidence goes to cache/evidence-seed<N>)
cd "$(dirname "$0")/.."
mkdir -p cache/logs
for sd in "$@"; do
  for id in C01 C02 C03 C04 C05 C06 C07 C08 C09 C10 C11 C12 C13 C14 C15 C16 C17 C18 C19 C20; do
    VERIF_SEED=$sd VERIF_EVIDENCE=$(pwd)/cache/evidence-seed$sd python3 tools/check.py $id --tier quick > cache/logs/seed$sd.$id.log 2>&1
    rc=$?
    out=$(grep -v "^KNOWN-FINDING\|^WARNING" cache/logs/seed$sd.$id.log | tail -2 | tr '\n' ' ' | cut -c1-260)
    echo "seed=$sd $id rc=$rc :: $out"
  done
done
