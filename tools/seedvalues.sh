#!/bin/sh
# seedvalues.sh <seed>... : every quick check on the unchanged tree with other VERIF_SEED values (evidence goes to cache/evidence-seed<N>)
cd "$(dirname "$0")/.."
for sd in "$@"; do
  for id in C01 C02 C03 C04 C05 C06 C07 C08 C09 C10 C11 C12 C13 C14 C15 C16 C17 C18 C19 C20; do
    out=$(VERIF_SEED=$sd VERIF_EVIDENCE=$(pwd)/cache/evidence-seed$sd python3 tools/check.py $id --tier quick 2>&1 | grep -v "^KNOWN-FINDING\|^WARNING" | tail -2 | tr '\n' ' ' | cut -c1-260)
    echo "seed=$sd $id rc=$? :: $out"
  done
done
