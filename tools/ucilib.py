#!/usr/bin/env python3
"""UCI session checks (C12, C16): session scripts, child-process runs of the real handler, classification
of the exchanged lines and validation against UciSession.tla."""
import concurrent.futures
import json
import os
import shutil
import subprocess

import vlib
from vlib import Inconclusive


def send(line):
    return {"op": "send", "line": line}


def wait(prefix, ms=5000):
    return {"op": "wait", "prefix": prefix, "ms": ms}


def sync(ms=2500):
    return {"op": "sync", "ms": ms}


def sleep(ms):
    return {"op": "sleep", "ms": ms}


def quiet(prefix, ms):
    return {"op": "quiet", "prefix": prefix, "ms": ms}


def run_sessions(scripts, procs=12, timeout=60, race=False):
    """Runs every script in its own driver process. Returns {id: {"events": [...], "rc": rc, "stderr": tail}}.
    With race=True the driver built with the Go race detector is used; its reports are returned in "races"."""
    run = vlib.scratch("uci")
    drv = vlib.driver(race=race)
    out = {}
    env = dict(os.environ)
    if race:
        env["GORACE"] = "halt_on_error=0 exitcode=0"

    if any(sc.get("book") for sc in scripts):
        # sessions with an opening book: the repository's small sample book, copied (the book writes its cache next to the source)
        shutil.copy(os.path.join(vlib.REPO, "assets", "books", "book_smalltest.txt"), run)
        scripts = [dict(sc, book=run) if sc.get("book") else sc for sc in scripts]

    def one(sc):
        sf = os.path.join(run, "s%d.json" % sc["id"])
        of = os.path.join(run, "o%d.ndjson" % sc["id"])
        with open(sf, "w") as fh:
            json.dump(sc, fh)
        try:
            p = subprocess.run([drv, "uci-session", "-script", sf, "-out", of], cwd=run, stdout=subprocess.DEVNULL,
                               stderr=subprocess.PIPE, timeout=timeout, env=env)
            full = p.stderr.decode(errors="replace")
            rc, err = p.returncode, full[-3000:]
            races = ["WARNING: DATA RACE" + b.split("==================")[0] for b in full.split("WARNING: DATA RACE")[1:]] if race else []
        except subprocess.TimeoutExpired:
            rc, err, races = -9, "session process timed out", []
        ev = []
        if os.path.exists(of):
            for l in open(of):
                try:
                    ev.append(json.loads(l))
                except ValueError:
                    pass
        return sc["id"], {"events": ev, "rc": rc, "stderr": err, "races": races}
    try:
        with concurrent.futures.ThreadPoolExecutor(max_workers=procs) as ex:
            for sid, r in ex.map(one, scripts):
                out[sid] = r
        return out
    finally:
        shutil.rmtree(run, ignore_errors=True)


def classify_in(line, malformed=False):
    if malformed:
        return {"ev": "in", "cmd": "ignored", "mode": ""}
    t = line.split()
    if not t:
        return {"ev": "in", "cmd": "ignored", "mode": ""}
    if t[0] == "go":
        mode = "inf" if "infinite" in t else ("ponder" if "ponder" in t else "finite")
        return {"ev": "in", "cmd": "go", "mode": mode}
    if t[0] in ("stop", "ponderhit", "isready"):
        return {"ev": "in", "cmd": t[0], "mode": ""}
    if t[0] == "quit":
        return {"ev": "end", "cmd": "", "mode": ""}
    return {"ev": "in", "cmd": "idle", "mode": ""}


def classify_out(line):
    if line.startswith("bestmove"):
        return {"ev": "out", "cmd": "bestmove", "mode": ""}
    if line.startswith("readyok"):
        return {"ev": "out", "cmd": "readyok", "mode": ""}
    return {"ev": "out", "cmd": "other", "mode": ""}


def trace_of(events, malformed_lines=()):
    tr = []
    for e in events:
        if e["ev"] == "in":
            tr.append(classify_in(e.get("line", ""), e.get("line", "") in malformed_lines))
        elif e["ev"] == "out":
            tr.append(classify_out(e.get("line", "")))
    return tr


def validate(traces, tag="uci-trace"):
    """traces: {id: [classified lines]}. Returns {id: (accepted, rejected_line_index)} and TLC state counts."""
    out, states = {}, [0, 0]

    def one(item):
        sid, tr = item
        txt = "".join(json.dumps(x) + "\n" for x in tr)
        cfg = ('SPECIFICATION TSpec\nCONSTANTS\n  MaxLines = 1000000\n  TraceFile = "trace.ndjson"\n'
               'POSTCONDITION TraceAccepted\nCHECK_DEADLOCK FALSE\n')
        art = vlib.tlc("UciSession", cfg, files={"trace.ndjson": txt}, workers=1, tag=tag, cache=False, heap="1g",
                       expect_ok=False, keep_out=False, timeout=300)
        st = vlib.art_stats(art)
        shutil.rmtree(art, ignore_errors=True)
        if not st.get("diameter"):
            raise Inconclusive("UciSession trace run failed: %s" % st.get("error"))
        ok = st["diameter"] - 1 == len(tr)
        return sid, (ok, st["diameter"]), st
    with concurrent.futures.ThreadPoolExecutor(max_workers=12) as ex:
        for sid, v, st in ex.map(one, list(traces.items())):
            out[sid] = v
            states[0] += st.get("distinct_states", 0)
            states[1] += st.get("states_generated", 0)
    return out, states
