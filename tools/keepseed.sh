#!/bin/sh
# keepseed.sh <worktree> <seed-id> : archives patch.diff and the demonstration files of a seeded change
set -e
wt=$1; id=$2; dst=/verif/seeded/$id
mkdir -p $dst
cp $wt/patch.diff $dst/patch.diff
cd $wt
for f in $(git status --porcelain | grep '^??' | awk '{print $2}' | grep -v '^patch.diff$' | grep -v 'PROPERTY.txt' | grep -v 'ALREADY_TRIED.txt' | grep -v '^.out'); do
  if [ -f "$f" ]; then mkdir -p $dst/demo/$(dirname $f); cp $f $dst/demo/$f; fi
done
ls -R $dst | head -20
