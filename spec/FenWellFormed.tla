----------------------------- MODULE FenWellFormed -----------------------------
(***************************************************************************)
(* "Position set-up from FEN either returns an error or a WELL-FORMED      *)
(* position" (property C16, first clause).                                 *)
(*                                                                         *)
(* ChessRules.WellFormed is what the rules of the game (and the engine's   *)
(* do / undo / generate machinery, which assumes them) need of a position: *)
(* one king a side, the side that just moved not left in check, no pawn on *)
(* a back rank, castling rights backed by king and rook on their squares,  *)
(* an en-passant square that a double step of the side that just moved can *)
(* have produced.  ChessGame checks it as an invariant of every reachable  *)
(* position (PosWellFormed), so a legal position is never refused by it.   *)
(*                                                                         *)
(* This module uses the definition in two ways.                            *)
(*                                                                         *)
(* GENERATOR (Mode = "gen"): every root position of RootsFile is DAMAGED   *)
(* by up to MaxDamage edits that keep the FEN text perfectly well formed - *)
(* the side to move flipped, an en-passant square set on any square of the *)
(* third / sixth rank, a castling right added, a piece removed, a piece    *)
(* put on an empty square, the king moved elsewhere.  Each state prints    *)
(* the position and WHY it is ill formed ("" if it still is well formed).  *)
(* The driver hands the FEN of each to the engine.                         *)
(*                                                                         *)
(* JUDGE (Mode = "judge"): the positions the engine ACCEPTED (its own FEN  *)
(* output, so that an engine which repairs a sloppy field instead of       *)
(* refusing the FEN is judged on what it holds) are read from JudgeFile    *)
(* and each is classified by Why.  A non-empty class is a violation.       *)
(***************************************************************************)
EXTENDS ChessRules, TLC, Json

CONSTANTS Mode, RootsFile, JudgeFile, MaxDamage, Thin

VARIABLES pos, root, ndam

RecPos(r) ==
    [board |-> [s \in Squares |-> r.board[s + 1]],
     stm   |-> r.stm,
     cr    |-> {r.cr[k] : k \in DOMAIN r.cr},
     ep    |-> r.ep,
     hmc   |-> r.hmc,
     fmn   |-> r.fmn]

\* the first conjunct of WellFormed that fails, in the order of the definition ("" = well formed)
Why(p) ==
    IF Cardinality(PiecesOf(p.board, WHITE, KING)) # 1 \/ Cardinality(PiecesOf(p.board, BLACK, KING)) # 1 THEN "kings"
    ELSE IF InCheckBoard(p.board, Other(p.stm)) THEN "side-that-moved-in-check"
    ELSE IF \E s \in Squares : TypeOf(p.board[s]) = PAWN /\ RankOf(s) \in {0, 7} THEN "pawn-on-back-rank"
    ELSE IF \/ ("K" \in p.cr /\ ~(p.board[4] = Piece(WHITE, KING) /\ p.board[7] = Piece(WHITE, ROOK)))
            \/ ("Q" \in p.cr /\ ~(p.board[4] = Piece(WHITE, KING) /\ p.board[0] = Piece(WHITE, ROOK)))
            \/ ("k" \in p.cr /\ ~(p.board[60] = Piece(BLACK, KING) /\ p.board[63] = Piece(BLACK, ROOK)))
            \/ ("q" \in p.cr /\ ~(p.board[60] = Piece(BLACK, KING) /\ p.board[56] = Piece(BLACK, ROOK)))
         THEN "castling-right-without-king-and-rook"
    ELSE IF p.ep # -1 /\ RankOf(p.ep) # (IF p.stm = WHITE THEN 5 ELSE 2) THEN "ep-square-on-the-movers-side"
    ELSE IF p.ep # -1 /\ p.board[p.ep + 8 * PawnDir(Other(p.stm))] # Piece(Other(p.stm), PAWN) THEN "ep-square-without-pawn"
    ELSE IF p.ep # -1 /\ (p.board[p.ep] # Empty \/ p.board[p.ep - 8 * PawnDir(Other(p.stm))] # Empty) THEN "ep-square-or-origin-occupied"
    ELSE ""

\* Why is a case analysis of WellFormed, not a second definition
WhyIsWellFormed(p) == (Why(p) = "") <=> WellFormed(p)

-----------------------------------------------------------------------------
RootRecs == IF Mode = "gen" THEN ndJsonDeserialize(RootsFile) ELSE <<>>

Keep(k) == (k + root + 5 * ndam) % Thin = 0

Occupied(p) == {s \in Squares : p.board[s] # Empty}
PutPieces == {Piece(WHITE, PAWN), Piece(BLACK, PAWN), Piece(WHITE, KING), Piece(BLACK, QUEEN), Piece(WHITE, ROOK), Piece(BLACK, KNIGHT)}

Damaged(p) ==
    {[p EXCEPT !.stm = Other(p.stm)]}
    \cup {[p EXCEPT !.stm = Other(p.stm), !.ep = -1]}
    \cup {[p EXCEPT !.ep = s] : s \in {x \in Squares : RankOf(x) \in {2, 5} /\ x # p.ep}}
    \cup {[p EXCEPT !.cr = p.cr \cup {c}] : c \in {"K", "Q", "k", "q"} \ p.cr}
    \cup {[p EXCEPT !.board[s] = Empty] : s \in {x \in Occupied(p) : Keep(x)}}
    \cup {[p EXCEPT !.board[s] = pc] : s \in {x \in Squares \ Occupied(p) : Keep(x)}, pc \in PutPieces}
    \cup {[p EXCEPT !.board[KingSq(p.board, c)] = Empty, !.board[s] = Piece(c, KING)] :
              c \in {k \in Colors : Cardinality(PiecesOf(p.board, k, KING)) = 1}, s \in {x \in Squares \ Occupied(p) : Keep(x + 1)}}

Init == /\ Mode = "gen"
        /\ \E i \in 1..Len(RootRecs) : root = i /\ pos = RecPos(RootRecs[i])
        /\ ndam = 0

Next == /\ ndam < MaxDamage
        /\ \E q \in Damaged(pos) : pos' = q
        /\ ndam' = ndam + 1
        /\ UNCHANGED root

Obs == /\ WhyIsWellFormed(pos)
       /\ PrintT(<<"FENPOS", ToJson([board |-> [i \in 1..64 |-> pos.board[i - 1]], stm |-> pos.stm,
                                      cr |-> <<IF "K" \in pos.cr THEN 1 ELSE 0, IF "Q" \in pos.cr THEN 1 ELSE 0,
                                               IF "k" \in pos.cr THEN 1 ELSE 0, IF "q" \in pos.cr THEN 1 ELSE 0>>,
                                      ep |-> pos.ep, hmc |-> pos.hmc, fmn |-> pos.fmn, why |-> Why(pos), ndam |-> ndam])>>)

\* the roots themselves are legal positions
RootsWellFormed == ndam = 0 => WellFormed(pos)

-----------------------------------------------------------------------------
JudgeRecs == IF Mode = "judge" THEN ndJsonDeserialize(JudgeFile) ELSE <<>>

JInit == Mode = "judge" /\ pos = 0 /\ root = 0 /\ ndam = 0
JNext == FALSE /\ UNCHANGED <<pos, root, ndam>>
Judge == \A i \in 1..Len(JudgeRecs) :
            LET p == RecPos(JudgeRecs[i]) IN
            /\ WhyIsWellFormed(p)
            /\ PrintT(<<"WF", i, Why(p)>>)
=============================================================================
