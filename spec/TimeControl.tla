------------------------------ MODULE TimeControl ------------------------------
(***************************************************************************)
(* The clock as a game (property C13, clock budget clause).                *)
(*                                                                         *)
(* State: the mover's remaining time rem (ms), the increment inc, the      *)
(* number of moves still to be played in this time control (left).         *)
(* PlayMove(b): the engine allots b ms to the move; the clock then shows   *)
(* rem - b + inc.  Requirement for ANY budget function the engine uses:    *)
(*   BudgetFits   b <= rem              (never more than what is left)     *)
(*   ClockLasts   rem >= 0 after every one of the announced moves-to-go    *)
(*                (or 15 moves when none is announced).                    *)
(*                                                                         *)
(* Configuration "grid": TLC enumerates the parameter grid and prints it;  *)
(* the driver plays each game with the engine's real budget function.      *)
(* Configuration "trace": the recorded games (ndjson) are validated: every *)
(* logged step must be a PlayMove step and is marked bad when it breaks    *)
(* one of the two requirements.                                            *)
(***************************************************************************)
EXTENDS Integers, Sequences, TLC, Json

CONSTANTS Times, Incs, MovesToGo, Phases, Opps, TraceFile

VARIABLES rem, inc, left, bad, l, game

vars == <<rem, inc, left, bad, l, game>>

\* ------------------------------------------------------------------ grid configuration
\* Opps: what the OPPONENT's clock shows (the budget of the mover must not depend on it):
\* 0 the same as the mover's, 1 much more time and increment, 2 almost nothing
GridInit == /\ rem \in Times /\ inc \in Incs /\ left \in MovesToGo
            /\ game \in Phases \X {0, 1} \X Opps
            /\ bad = FALSE /\ l = 0
GridNext == UNCHANGED vars
GridObs == PrintT(<<"GRID", ToJson([time |-> rem, inc |-> inc, movestogo |-> left,
                                    phase |-> game[1], stm |-> game[2], opp |-> game[3]])>>)

\* ------------------------------------------------------------------ the game
PlayMove(b) ==
    /\ left > 0
    /\ rem' = rem - b + inc
    /\ left' = left - 1
    /\ bad' = (b > rem \/ rem - b + inc < 0 \/ b < 0)
    /\ UNCHANGED inc

BudgetFits == ~bad

\* ------------------------------------------------------------------ trace configuration
Trace == ndJsonDeserialize(TraceFile)
Ev == Trace[l]

TraceInit == rem = 0 /\ inc = 0 /\ left = 0 /\ bad = FALSE /\ l = 1 /\ game = <<0, 0, 0>>

TStart == /\ l <= Len(Trace) /\ Ev.ev = "start"
          /\ rem' = Ev.time /\ inc' = Ev.inc
          /\ left' = IF Ev.movestogo = 0 THEN 15 ELSE Ev.movestogo
          /\ bad' = FALSE /\ game' = <<Ev.phase, Ev.stm, Ev.opp>>
          /\ l' = l + 1

TMove == /\ l <= Len(Trace) /\ Ev.ev = "move"
         /\ Ev.rem = rem                      \* the logged clock is the model's clock
         /\ PlayMove(Ev.b)
         /\ UNCHANGED game
         /\ l' = l + 1

TraceNext == TStart \/ TMove

\* every bad step is printed with its line number (all of them, not only the first)
BadObs == ~bad \/ PrintT(<<"BADSTEP", l - 1>>)
TraceAccepted == TLCGet("stats").diameter - 1 = Len(Trace)
=============================================================================
