------------------------------ MODULE TimeControl ------------------------------
(***************************************************************************)
(* The clock as a game (property C13, clock budget clause).                *)
(*                                                                         *)
(* State: the mover's remaining time rem (ms), the increment inc, the      *)
(* number of moves still to be played in this time control (left).         *)
(* PlayMove(b): the engine allots b ms to the move; the clock then shows   *)
(* rem - b + inc.  Requirement for ANY budget function the engine uses:    *)
(*   BudgetFits   b <= rem              (never more than what is left)     *)
(*   RepeatFits   b * n <= rem + n * inc: the same budget repeated for the *)
(*                n announced moves-to-go (15 when none is announced) fits *)
(*                into the remaining time plus the increments              *)
(*   ClockLasts   rem >= 0 after every one of the announced moves-to-go    *)
(*                (or 15 moves when none is announced).                    *)
(*   AllottedFits what the search may actually take for a move - budget    *)
(*                plus the extra time it grants itself (first move out of  *)
(*                the book) - is within the clock as well (TExt).          *)
(*                                                                         *)
(* Configuration "grid": TLC enumerates the parameter grid and prints it;  *)
(* the driver plays each game with the engine's real budget function.      *)
(* Configuration "trace": the recorded games (ndjson) are validated: every *)
(* logged step must be a PlayMove step and is marked bad when it breaks    *)
(* one of the two requirements.                                            *)
(***************************************************************************)
EXTENDS Integers, Sequences, TLC, Json

CONSTANTS Times, Incs, MovesToGo, Phases, Opps, TraceFile

VARIABLES rem, inc, left, bad, l, game

vars == <<rem, inc, left, bad, l, game>>

\* ------------------------------------------------------------------ grid configuration
\* Opps: what the OPPONENT's clock shows (the budget of the mover must not depend on it):
\* 0 the same as the mover's, 1 much more time and increment, 2 almost nothing
GridInit == /\ rem \in Times /\ inc \in Incs /\ left \in MovesToGo
            /\ game \in Phases \X {0, 1} \X Opps
            /\ bad = FALSE /\ l = 0
GridNext == UNCHANGED vars
GridObs == PrintT(<<"GRID", ToJson([time |-> rem, inc |-> inc, movestogo |-> left,
                                    phase |-> game[1], stm |-> game[2], opp |-> game[3]])>>)

\* ------------------------------------------------------------------ random configuration
\* NRand pseudo-random parameter points between the grid lines (a linear congruential generator, so that the points are a
\* function of RandSeed): clocks from 1 ms to 10^7 ms, increments 0 or up to 10^5 ms, moves-to-go 0 or 1..60
CONSTANTS NRand, RandSeed
Lcg(x) == (x * 75 + 74) % 65537
RECURSIVE LcgN(_, _)
LcgN(x, n) == IF n = 0 THEN x ELSE LcgN(Lcg(x), n - 1)
R(i, k) == LcgN(((((i * 7919) % 65537) * ((2 * k) + 1)) + (k * k * 31) + ((RandSeed % 65537) * 10473) + 17) % 65537, 3)   \* (a different multiplier per parameter)
Pow10 == <<1, 10, 100, 1000, 10000>>
RandInit == /\ \E i \in 1..NRand :
                 /\ rem = ((R(i, 2) % 1000) + 1) * Pow10[(R(i, 1) % 5) + 1]
                 /\ inc = IF (R(i, 3) % 3) = 0 THEN 0 ELSE (R(i, 4) % 1000) * Pow10[(R(i, 5) % 3) + 1]
                 /\ left = IF (R(i, 6) % 2) = 0 THEN 0 ELSE (R(i, 7) % 60) + 1
                 /\ game = <<(R(i, 8) % 3) * 12, R(i, 9) % 2, R(i, 10) % 3>>
            /\ bad = FALSE /\ l = 0

\* ------------------------------------------------------------------ the game
\* n: the moves the budget must last for when it is repeated - the announced moves-to-go at this move, 15 when none is announced
PlayMove(b, n) ==
    /\ left > 0
    /\ rem' = rem - b + inc
    /\ left' = left - 1
    /\ bad' = (b > rem \/ rem - b + inc < 0 \/ b < 0 \/ b * n > rem + (n * inc))
    /\ UNCHANGED inc

BudgetFits == ~bad

\* ------------------------------------------------------------------ trace configuration
Trace == ndJsonDeserialize(TraceFile)
Ev == Trace[l]

TraceInit == rem = 0 /\ inc = 0 /\ left = 0 /\ bad = FALSE /\ l = 1 /\ game = <<0, 0, 0>>

TStart == /\ l <= Len(Trace) /\ Ev.ev = "start"
          /\ rem' = Ev.time /\ inc' = Ev.inc
          /\ left' = IF Ev.movestogo = 0 THEN 15 ELSE Ev.movestogo
          /\ bad' = FALSE /\ game' = <<Ev.phase, Ev.stm, Ev.opp>>
          /\ l' = l + 1

TMove == /\ l <= Len(Trace) /\ Ev.ev = "move"
         /\ Ev.rem = rem                      \* the logged clock is the model's clock
         /\ PlayMove(Ev.b, IF Ev.movestogo = 0 THEN 15 ELSE Ev.movestogo)
         /\ UNCHANGED game
         /\ l' = l + 1

\* what the search is ALLOWED to take for the move about to be played (time limit plus the extra time the search grants itself -
\* the first search after a book move doubles its budget): it is never more than what is on the clock, and never less than
\* nothing.  The clock is not moved by this step; the move itself follows.
TExt == /\ l <= Len(Trace) /\ Ev.ev = "ext"
        /\ Ev.rem = rem
        /\ bad' = (Ev.b > rem \/ Ev.b < 0)
        /\ UNCHANGED <<rem, inc, left, game>>
        /\ l' = l + 1

TraceNext == TStart \/ TMove \/ TExt

\* every bad step is printed with its line number (all of them, not only the first)
BadObs == ~bad \/ PrintT(<<"BADSTEP", l - 1>>)
TraceAccepted == TLCGet("stats").diameter - 1 = Len(Trace)
=============================================================================
