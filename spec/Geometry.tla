------------------------------- MODULE Geometry -------------------------------
(***************************************************************************)
(* The board-geometry lookups of the engine as a degenerate state machine  *)
(* whose states enumerate table ENTRIES: one hub state per (table, square),*)
(* one successor per entry.  Each entry state prints the geometric value   *)
(* defined in ChessRules from square coordinates (property C18).  The      *)
(* domain is finite and is enumerated completely.                          *)
(*                                                                         *)
(* Sliding attacks: for rook and bishop, every occupancy of the squares on *)
(* the piece's lines - Lines = "inner" leaves out the last square of each  *)
(* ray (it cannot change the attack set; these are the 107,648 entries a   *)
(* magic table holds), Lines = "full" takes all line squares.              *)
(***************************************************************************)
EXTENDS ChessRules, TLC, Json

CONSTANTS Lines,      \* "inner" | "full" | "none"
          Tables      \* subset of the non-sliding table names to enumerate

VARIABLES tab, sq, arg, val, hub

vars == <<tab, sq, arg, val, hub>>

SlideTabs == IF Lines = "none" THEN {} ELSE {"slideR", "slideB"}
SlideType(t) == IF t = "slideR" THEN ROOK ELSE BISHOP

LineMask(t, s) ==
    UNION {{Ray[s][d][i] : i \in 1..(IF Lines = "inner" THEN Len(Ray[s][d]) - 1 ELSE Len(Ray[s][d]))} :
              d \in SliderDirs(SlideType(t))}

OccBoard(occ) == [x \in Squares |-> IF x \in occ THEN 1 ELSE 0]
EmptyBoard == [x \in Squares |-> Empty]

\* engine orders: Orientation NW N NE E SE S SW W ; Direction N E S W NE SE SW NW (= DirVec)
OrientDir == <<8, 1, 5, 2, 6, 3, 7, 4>>

FilesWest(s) == {x \in Squares : FileOf(x) < FileOf(s)}
FilesEast(s) == {x \in Squares : FileOf(x) > FileOf(s)}
FileWest(s) == {x \in Squares : FileOf(x) = FileOf(s) - 1}
FileEast(s) == {x \in Squares : FileOf(x) = FileOf(s) + 1}
RanksNorth(s) == {x \in Squares : RankOf(x) > RankOf(s)}
RanksSouth(s) == {x \in Squares : RankOf(x) < RankOf(s)}
Passed(c, s) == {x \in Squares : /\ Abs(FileOf(x) - FileOf(s)) <= 1
                                 /\ IF c = WHITE THEN RankOf(x) > RankOf(s) ELSE RankOf(x) < RankOf(s)}
StepTo(s, d) == IF OnBoard(FileOf(s) + DirVec[d][1], RankOf(s) + DirVec[d][2])
                THEN SqOf(FileOf(s) + DirVec[d][1], RankOf(s) + DirVec[d][2]) ELSE 64
SquareColour(s) == IF (FileOf(s) + RankOf(s)) % 2 = 0 THEN BLACK ELSE WHITE     \* a1 is a dark square
\* the back-rank squares on the king's side / queen's side of the king's home square e1 / e8 (rook square included)
CastleSide(s, side) == {x \in Squares : RankOf(x) = RankOf(s) /\ IF side = "K" THEN FileOf(x) > FileOf(s) ELSE FileOf(x) < FileOf(s)}
RightBits(s) == (IF "K" \in RightsAt(s) THEN 1 ELSE 0) + (IF "Q" \in RightsAt(s) THEN 2 ELSE 0)
              + (IF "k" \in RightsAt(s) THEN 4 ELSE 0) + (IF "q" \in RightsAt(s) THEN 8 ELSE 0)

\* entries of the non-sliding tables that hang off square s: <<table, argument, value>>
SquareEntries(s) ==
    {<<"knight", <<s>>, KnightStep[s]>>, <<"king", <<s>>, KingStep[s]>>,
     <<"pseudoB", <<s>>, SlidingAttack(BISHOP, s, EmptyBoard)>>,
     <<"pseudoR", <<s>>, SlidingAttack(ROOK, s, EmptyBoard)>>,
     <<"pseudoQ", <<s>>, SlidingAttack(QUEEN, s, EmptyBoard)>>,
     <<"filesWest", <<s>>, FilesWest(s)>>, <<"filesEast", <<s>>, FilesEast(s)>>,
     <<"fileWest", <<s>>, FileWest(s)>>, <<"fileEast", <<s>>, FileEast(s)>>,
     <<"ranksNorth", <<s>>, RanksNorth(s)>>, <<"ranksSouth", <<s>>, RanksSouth(s)>>,
     <<"neighbours", <<s>>, FileWest(s) \cup FileEast(s)>>,
     <<"center", <<s>>, CenterDist(s)>>, <<"castle", <<s>>, RightBits(s)>>,
     <<"fileBb", <<s>>, {x \in Squares : FileOf(x) = FileOf(s)}>>,
     <<"rankBb", <<s>>, {x \in Squares : RankOf(x) = RankOf(s)}>>,
     <<"colourBb", <<SquareColour(s), s>>, {x \in Squares : SquareColour(x) = SquareColour(s)}>>}
    \cup (IF s \in {4, 60} THEN {<<"castleK", <<IF s = 4 THEN WHITE ELSE BLACK, s>>, CastleSide(s, "K")>>,
                                <<"castleQ", <<IF s = 4 THEN WHITE ELSE BLACK, s>>, CastleSide(s, "Q")>>} ELSE {})
    \cup {<<"pawn", <<c, s>>, PawnAtt[c][s]>> : c \in Colors}
    \cup {<<"passed", <<c, s>>, Passed(c, s)>> : c \in Colors}
    \cup {<<"ray", <<o - 1, s>>, SeqToSet(Ray[s][OrientDir[o]])>> : o \in 1..8}
    \cup {<<"to", <<s, d - 1>>, StepTo(s, d)>> : d \in Dirs}
    \cup {<<"shift", <<s, d - 1>>, ShiftSet({s}, d)>> : d \in Dirs}
    \cup {<<"between", <<s, b>>, Between(s, b)>> : b \in Squares}
    \cup {<<"dist", <<s, b>>, ChebDist(s, b)>> : b \in Squares}

Init == /\ sq \in Squares
        /\ tab \in SlideTabs \cup {"misc"}
        /\ arg = <<>>
        /\ val = {}
        /\ hub = TRUE

Entry ==
    /\ hub
    /\ hub' = FALSE
    /\ \/ /\ tab \in SlideTabs
          /\ \E occ \in SUBSET LineMask(tab, sq) :
                /\ arg' = occ
                /\ val' = SlidingAttack(SlideType(tab), sq, OccBoard(occ))
          /\ UNCHANGED <<tab, sq>>
       \/ /\ tab = "misc"
          /\ \E e \in SquareEntries(sq) :
                /\ e[1] \in Tables
                /\ tab' = e[1] /\ arg' = e[2] /\ val' = e[3]
          /\ UNCHANGED sq

Next == Entry

-----------------------------------------------------------------------------
(* Invariants that validate the geometric definitions against each other   *)

GeoSane ==
    ~hub =>
      /\ tab \in SlideTabs =>
            /\ val \subseteq LineMask(tab, sq) \cup UNION {SeqToSet(Ray[sq][d]) : d \in SliderDirs(SlideType(tab))}
            /\ \A x \in val : Between(sq, x) \cap arg = {}          \* nothing stands between
            /\ \A d \in SliderDirs(SlideType(tab)) :                 \* and the ray stops at the first blocker
                  \A i \in 1..Len(Ray[sq][d]) :
                     (Ray[sq][d][i] \in val) = (\A j \in 1..(i - 1) : Ray[sq][d][j] \notin arg)
      /\ tab = "between" => val = Between(arg[2], arg[1])
      /\ tab = "dist" => val = ChebDist(arg[2], arg[1])
      /\ tab \in {"knight", "king"} => \A x \in val : sq \in (IF tab = "knight" THEN KnightStep[x] ELSE KingStep[x])
      /\ tab = "pawn" => \A x \in val : arg[2] \in PawnAtt[Other(arg[1])][x]

Out == hub \/ PrintT(<<"GEO", ToJson([t |-> tab, s |-> sq, a |-> arg, v |-> val])>>)

=============================================================================
