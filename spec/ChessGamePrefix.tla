--------------------------- MODULE ChessGamePrefix ---------------------------
(***************************************************************************)
(* ChessGame walks that begin with a fixed opening sequence: the knights   *)
(* go out and home again (1. Nf3 Nf6 2. Ng1 Ng8), so that every game of    *)
(* the walk RETURNS TO THE INITIAL POSITION after four plies and goes on   *)
(* from there - transpositions into the root of an opening book (property  *)
(* C19: the visit count of a position is the number of visits by the games,*)
(* also for the start position).  Nothing of ChessGame is changed: only    *)
(* the initial states differ - the position after j = 0..4 plies of the    *)
(* dance; those with j < 4 are emitted as nodes but go nowhere (their      *)
(* stack is full), the one with j = 4 walks on as ChessGame's generator    *)
(* mode does.                                                              *)
(***************************************************************************)
EXTENDS ChessGame

\* g1f3 g8f6 f3g1 f6g8 in the move code of ChessRules (from + 64 * to)
Dance == <<6 + 64 * 21, 62 + 64 * 45, 21 + 64 * 6, 45 + 64 * 62>>

RECURSIVE PosAfter(_)
PosAfter(j) == IF j = 0 THEN RootPos(1) ELSE Apply(PosAfter(j - 1), Dance[j])

PInit ==
    /\ Walks > 0
    /\ root = 1
    /\ \E j \in 0..4 :
         /\ pos = PosAfter(j)
         /\ legal = Legal(PosAfter(j))
         /\ path = SubSeq(Dance, 1, j)
         /\ hist = [i \in 1..j |-> Ident(PosAfter(i - 1))]
         /\ kinds = [i \in 1..j |-> <<KindOf(PosAfter(i - 1), Dance[i]), Captured(PosAfter(i - 1), Dance[i])>>]
         /\ IF j = 4
            THEN /\ stack = <<>>
                 /\ \E w \in 1..Walks : rng = LcgN((w * 7919 + WalkSeed * 10473 + 17) % 65537, 3)
            ELSE /\ stack = [i \in 1..MaxStack |-> <<PosAfter(j), "x", {}>>]
                 /\ rng = 0

\* the dance is legal chess and really comes home (placement, side, rights, en-passant field)
DanceOK == /\ \A j \in 1..4 : Dance[j] \in Legal(PosAfter(j - 1))
           /\ Ident(PosAfter(4)) = Ident(RootPos(1))
ASSUME DanceOK

PSpec == PInit /\ [][Next]_vars
=============================================================================
