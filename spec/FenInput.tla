-------------------------------- MODULE FenInput --------------------------------
(***************************************************************************)
(* Generator of FEN-like strings for the totality clause of property C16.  *)
(*                                                                         *)
(* Family "rank": every sequence of up to MaxTok tokens over a small       *)
(* alphabet (digits that overflow the rank, pieces, separators, an invalid *)
(* character) is used as the first rank(s) of the placement field, the     *)
(* remaining ranks and fields being fixed - this covers rank overflow by   *)
(* digit, by piece, by both, too few / too many ranks and squares.         *)
(* Family "field": every field of a base FEN replaced by each of a list of *)
(* bad values; family "cut": a base FEN truncated after every field and    *)
(* with extra fields.  Each generated string is printed; the driver feeds  *)
(* it to the engine.  The oracle needs no classification: for ANY string   *)
(* the set-up either fails with an error or yields a position whose FEN    *)
(* output parses back to the same position, without panic or hang.         *)
(***************************************************************************)
EXTENDS Integers, Sequences, TLC

CONSTANTS MaxTok

VARIABLES fam, toks, idx

Alphabet == <<"1", "4", "8", "9", "p", "K", "k", "/", "x">>
RankTails == <<"", "/8/8/8/8/8/8/k6K", "/8/8/8/8/8/8/8", "/8/8/8/8/8/k6K", "/8/8/8/8/8/8/8/8">>

RECURSIVE Cat(_)
Cat(s) == IF s = <<>> THEN "" ELSE Head(s) \o Cat(Tail(s))

BadSide == <<"", "x", "W", "wb", "-">>
BadCastle == <<"KQkqK", "X", "kqKQ", "--", "KQkq-", "">>
BadEp == <<"e9", "i3", "e", "e33", "a1", "h8", "e4", "a6", "h3", "33">>
BadClock == <<"-1", "x", "99999999999999999999", "1.5", "", "9223372036854775807", "4611686018427387904", "2147483648", "00012">>
BadMove == <<"0", "-5", "x", "99999999999999999999", "4611686018427387904", "9223372036854775807", "4611686018427387903", "2147483648", "007">>
Bases == << <<"rnbqkbnr/pppppppp/8/8/8/8/PPPPPPPP/RNBQKBNR", "w", "KQkq", "-", "0", "1">>,
            <<"rnbqkbnr/1ppppppp/8/pP6/8/8/P1PPPPPP/RNBQKBNR", "w", "KQkq", "a6", "0", "3">>,
            <<"8/8/8/8/8/8/8/k6K", "b", "-", "-", "12", "40">> >>
Bad == <<BadSide, BadCastle, BadEp, BadClock, BadMove>>

Join(f) == f[1] \o " " \o f[2] \o " " \o f[3] \o " " \o f[4] \o " " \o f[5] \o " " \o f[6]
RECURSIVE JoinN(_, _)
JoinN(f, n) == IF n = 0 THEN "" ELSE IF n = 1 THEN f[1] ELSE JoinN(f, n - 1) \o " " \o f[n]

Init == fam = "hub" /\ toks = <<>> /\ idx = 0

NextRank ==   \* grow a token sequence (all sequences up to MaxTok are reached), or attach a tail
    /\ fam \in {"hub", "rank"} /\ Len(toks) < MaxTok
    /\ \E a \in 1..Len(Alphabet) : toks' = Append(toks, Alphabet[a])
    /\ fam' = "rank" /\ idx' = 0
NextField ==
    /\ fam = "hub"
    /\ \E b \in 1..Len(Bases), f \in 1..5, v \in 1..10 :
          /\ v <= Len(Bad[f])
          /\ toks' = [Bases[b] EXCEPT ![f + 1] = Bad[f][v]]
    /\ fam' = "field" /\ idx' = 0
NextCut ==
    /\ fam = "hub"
    /\ \E b \in 1..Len(Bases), n \in 0..7 : toks' = Bases[b] /\ idx' = n
    /\ fam' = "cut"
Next == NextRank \/ NextField \/ NextCut

Strings ==
    IF fam = "rank" THEN {Cat(toks) \o RankTails[t] \o " w - - 0 1" : t \in 1..Len(RankTails)}
    ELSE IF fam = "field" THEN {Join(toks)}
    ELSE IF fam = "cut" THEN {IF idx = 7 THEN Join(toks) \o " extra 7" ELSE JoinN(toks, idx)}
    ELSE {}

Out == \A s \in Strings : PrintT(<<"FEN", s>>)
=============================================================================
