--------------------------- MODULE MoveGenODTrace ---------------------------
(***************************************************************************)
(* Trace validation for MoveGenOD: runs of the real phased generator       *)
(* (GetNextMove called until it returns MoveNone, and once more), recorded *)
(* with the generator's internal state after every call (hook              *)
(* VerifOnDemandState: stage, take index, batch length, pushed flag), must *)
(* be behaviours of the stage machine.  The inputs of a run - generation   *)
(* class, capture flag and legality of every pseudo-legal move - come from *)
(* ChessRules.tla (TLC output of ChessGame), not from the engine.          *)
(*                                                                         *)
(* One file holds many runs: a "run" line re-initialises the machine, a    *)
(* "call" line is one GetNextMove call.  The statements of a call are      *)
(* silent steps; the step that returns must reproduce the logged move and  *)
(* the logged state.  The properties of MoveGenOD are checked as           *)
(* invariants on every run.                                                *)
(***************************************************************************)
EXTENDS MoveGenOD, Json

CONSTANT TraceFile
VARIABLE l          \* next line of the trace

Trace == ndJsonDeserialize(TraceFile)
tvars == <<vars, l>>

\* function from the elements of the sequence ks to the elements of vs
Fn(ks, vs) == [k \in {ks[i] : i \in 1..Len(ks)} |-> vs[CHOOSE i \in 1..Len(ks) : ks[i] = k]]

Bind(e) ==   \* the inputs of a run (primed)
    /\ cls' = Fn(e.moves, e.cls) /\ cap' = Fn(e.moves, e.cap)
    /\ evs' = Fn(e.moves, e.evs) /\ legalm' = Fn(e.moves, e.legal)
    /\ pv' = e.pv /\ mode' = e.mode /\ evasion' = e.evasion
    /\ stage' = 0 /\ rem' = {} /\ n' = 0 /\ take' = 0 /\ pushed' = FALSE /\ fillev' = FALSE
    /\ pc' = "idle" /\ out' = <<>>

TInit ==
    /\ l = 2 /\ Trace[1].t = "run"
    /\ LET e == Trace[1] IN
         /\ cls = Fn(e.moves, e.cls) /\ cap = Fn(e.moves, e.cap)
         /\ evs = Fn(e.moves, e.evs) /\ legalm = Fn(e.moves, e.legal)
         /\ pv = e.pv /\ mode = e.mode /\ evasion = e.evasion
    /\ StartState
    /\ TLCSet(1, 0)

TReset ==
    /\ pc = "idle" /\ l <= Len(Trace) /\ Trace[l].t = "run"
    /\ Bind(Trace[l]) /\ l' = l + 1

TStep ==
    /\ l <= Len(Trace) /\ Trace[l].t = "call"
    /\ Next
    /\ IF pc # "idle" /\ pc' = "idle"
       THEN LET e == Trace[l] IN
            /\ out'[Len(out')] = e.ret
            /\ stage' = e.stage /\ take' = e.take /\ n' = e.n /\ pushed' = e.pushed
            /\ l' = l + 1
       ELSE l' = l

TNext == TReset \/ TStep
TSpec == TInit /\ [][TNext]_tvars

\* the properties of MoveGenOD on the real runs: reported (with the line reached), never stopping the validation
Flag(name, ok) == ok \/ PrintT(<<"OD-PROP", name, l>>)
PropsReport ==
    /\ Flag("InputsOK", InputsOK) /\ Flag("BatchSane", BatchSane) /\ Flag("NoneIsFinal", NoneIsFinal)
    /\ Flag("Exact", Exact) /\ Flag("PvFirst", PvFirst) /\ Flag("EvasionSound", EvasionSound)

\* acceptance: the highest line reached (state constraint, one worker)
Mark == TLCSet(1, IF TLCGet(1) < l THEN l ELSE TLCGet(1))
Report == PrintT(<<"OD-VERDICT", TLCGet(1), Len(Trace)>>)
=============================================================================
