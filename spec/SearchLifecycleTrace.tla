------------------------- MODULE SearchLifecycleTrace -------------------------
(***************************************************************************)
(* Trace validation for SearchLifecycle: the hook events recorded from a   *)
(* real run (one controller goroutine, search goroutines, timer            *)
(* goroutines) must be explainable as a behaviour of the model.            *)
(*                                                                         *)
(* Hooks fire after a statement, on the goroutine that executed it, so the *)
(* recorded GLOBAL order of events of different goroutines is not          *)
(* reliable; only the order per goroutine is.  The trace specification     *)
(* therefore keeps one read position per goroutine and lets TLC look for   *)
(* an interleaving: every step consumes the next event of one goroutine    *)
(* and is the corresponding action of the model.  Statements without a     *)
(* hook (clock ticks, queueing in Acquire, leaving a wait loop) are silent *)
(* steps, enabled only when the goroutine's next event needs them.         *)
(* The trace is accepted when some interleaving consumes all events.       *)
(***************************************************************************)
EXTENDS SearchLifecycle, Json

CONSTANT TraceFile

VARIABLES ic,      \* events of the controller consumed so far
          ir,      \* search goroutine k -> events consumed
          it,      \* real timer j -> events consumed
          tb,      \* real timer j -> model timer id it is bound to (0 = not yet)
          ph       \* the controller is inside a PonderHit call and has not hit the hook yet

T == JsonDeserialize(TraceFile)        \* [c |-> <<[at, mode, value]...>>, r |-> <<<<at...>>...>>, t |-> <<<<at...>>...>>]
CE == T.c
NR == Len(T.r)
NT == Len(T.t)

tvars == <<vars, ic, ir, it, tb, ph>>

TInit == /\ Init
         /\ ic = 0 /\ ir = [k \in 1..NR |-> 0] /\ it = [j \in 1..NT |-> 0] /\ tb = [j \in 1..NT |-> 0] /\ ph = FALSE
         /\ TLCSet(1, FALSE) /\ TLCSet(2, 0) /\ TLCSet(3, FALSE)

CNext == IF ic < Len(CE) THEN CE[ic + 1].at ELSE "<end>"
RNextEv(k) == IF ir[k] < Len(T.r[k]) THEN T.r[k][ir[k] + 1] ELSE "<end>"
TNextEv(j) == IF it[j] < Len(T.t[j]) THEN T.t[j][it[j] + 1] ELSE "<end>"

ConsumeC == ic' = ic + 1 /\ UNCHANGED <<ir, it, tb>>
ConsumeR(k) == ir' = [ir EXCEPT ![k] = @ + 1] /\ UNCHANGED <<ic, it, tb, ph>>
Silent == UNCHANGED <<ic, ir, it, tb, ph>>
NoOp == UNCHANGED vars

\* ------------------------------------------------------------------ controller events
CtrlStep ==
    LET e == CNext IN
    \/ /\ e = "call.start.begin" /\ CallStart(CE[ic + 1].mode) /\ ConsumeC /\ UNCHANGED ph
    \/ /\ e = "c.start.acq1" /\ StartAcq1 /\ ConsumeC /\ UNCHANGED ph
    \/ /\ e = "c.start.store" /\ StartStore /\ ConsumeC /\ UNCHANGED ph
    \/ /\ e = "c.start.spawn" /\ StartSpawn /\ ConsumeC /\ UNCHANGED ph
    \/ /\ e = "c.start.acq2" /\ StartAcq2 /\ ConsumeC /\ UNCHANGED ph
    \/ /\ e = "c.start.rel" /\ StartRel /\ ConsumeC /\ UNCHANGED ph
    \/ /\ e = "c.stop.set" /\ CallStop /\ ConsumeC /\ UNCHANGED ph
    \/ /\ e = "call.wait.begin" /\ CallWait /\ ConsumeC /\ UNCHANGED ph
    \/ /\ e = "c.wait.acq" /\ cpc = <<"wait", "acq">> /\ runHolder = 0 /\ WaitAcq /\ ConsumeC /\ UNCHANGED ph
    \/ /\ e = "c.wait.acq" /\ WaitGranted /\ ConsumeC /\ UNCHANGED ph
    \/ /\ e = "c.wait.rel" /\ WaitRel /\ ConsumeC /\ UNCHANGED ph
    \/ /\ e = "call.ponderhit.begin" /\ CtrlIdle /\ NoOp /\ ConsumeC /\ ph' = TRUE
    \/ /\ e = "c.ponderhit" /\ ph /\ Searching /\ limits = "ponder" /\ CallPonderHit /\ ConsumeC /\ ph' = FALSE
    \/ /\ e = "call.ponderhit.end" /\ ph /\ ~(Searching /\ limits = "ponder") /\ CallPonderHit /\ ConsumeC /\ ph' = FALSE
    \/ /\ e = "call.ponderhit.end" /\ ~ph /\ NoOp /\ ConsumeC /\ UNCHANGED ph
    \/ /\ e = "call.issearching.begin" /\ CallIsSearching /\ ConsumeC /\ UNCHANGED ph
    \/ /\ e = "issearching.value" /\ CE[ic + 1].value = Searching /\ NoOp /\ ConsumeC /\ UNCHANGED ph
    \/ /\ e \in {"call.start.end", "call.stop.begin", "call.stop.end", "c.stop.done", "call.wait.end",
                 "call.issearching.end", "call.newgame.begin", "call.newgame.end", "call.sleep.begin", "call.sleep.end",
                 "call.isready.begin", "call.isready.end", "call.clearhash.begin", "call.clearhash.end",
                 "call.resize.begin", "call.resize.end"}
       /\ (e \in {"call.start.end", "call.stop.end", "call.wait.end"} => CtrlIdle)
       /\ NoOp /\ ConsumeC /\ UNCHANGED ph

\* queueing in Acquire has no hook: silent, only when the controller's next event is the acquisition
CtrlSilent == /\ CNext = "c.wait.acq" /\ cpc = <<"wait", "acq">> /\ runHolder \in SIds /\ WaitAcq /\ Silent

\* ------------------------------------------------------------------ search goroutine events
SearchStep(k) ==
    LET e == RNextEv(k) IN
    \/ /\ e = "r.try.ok" /\ spc[k] = "try" /\ runHolder = 0 /\ runWaiter = 0 /\ RunTry(k) /\ ConsumeR(k)
    \/ /\ e = "r.try.ok" /\ RunGranted(k) /\ ConsumeR(k)
    \/ /\ e = "r.try.fail" /\ RunTry(k) /\ spc'[k] = "rejected" /\ ConsumeR(k)
    \/ /\ e = "r.reset" /\ RunReset(k) /\ ConsumeR(k)
    \/ /\ e = "r.tl0" /\ RunTl0(k) /\ ConsumeR(k)
    \/ /\ e = "r.setup" /\ RunSetup(k) /\ ConsumeR(k)
    \/ /\ e = "r.timer" /\ RunTimer(k) /\ ConsumeR(k)
    \/ /\ e = "r.init.rel" /\ RunInitRel(k) /\ ConsumeR(k)
    \/ /\ e = "r.done" /\ RunWork(k) /\ ConsumeR(k)
    \/ /\ e = "r.end.set" /\ RunEndSet(k) /\ ConsumeR(k)
    \/ /\ e = "r.sent" /\ RunSend(k) /\ ConsumeR(k)
    \/ /\ e = "r.rel" /\ RunRel(k) /\ ConsumeR(k)

SearchSilent(k) ==
    \/ /\ RNextEv(k) = "r.try.ok" /\ spc[k] = "try" /\ RunTry(k) /\ spc'[k] = "queued" /\ Silent   \* waits for a finishing search
    \/ /\ RNextEv(k) = "r.end.set" /\ spc[k] = "done" /\ RunWait(k) /\ spc'[k] = "endset" /\ Silent \* leaves the wait loop

\* ------------------------------------------------------------------ timer goroutine events
TimerStep(j) ==
    LET e == TNextEv(j) IN
    \/ /\ e = "t.start" /\ tb[j] = 0
       /\ \E t \in TIds : /\ \A x \in 1..NT : tb[x] # t
                          /\ TimerStart(t)
                          /\ tb' = [tb EXCEPT ![j] = t]
       /\ it' = [it EXCEPT ![j] = @ + 1] /\ UNCHANGED <<ic, ir, ph>>
    \/ /\ e \in {"t.exit", "t.fire"} /\ tb[j] # 0
       /\ TimerCheck(tb[j])
       /\ (e = "t.fire") = (lastSetter' = <<"timer", tb[j]>> /\ stopFlag' /\ ~stopFlag)
       /\ it' = [it EXCEPT ![j] = @ + 1] /\ UNCHANGED <<ic, ir, tb, ph>>

TimerSilent(j) ==
    /\ TNextEv(j) \in {"t.exit", "t.fire"} /\ tb[j] # 0 /\ tpc[tb[j]] = "tpoll"
    /\ TimerPoll(tb[j]) /\ tpc'[tb[j]] = "tcheck" /\ Silent

\* real time passes: silent, bounded by MaxClock
TickSilent == Tick /\ Silent

TNext == \/ CtrlStep \/ CtrlSilent
         \/ \E k \in 1..NR : SearchStep(k) \/ SearchSilent(k)
         \/ \E j \in 1..NT : TimerStep(j) \/ TimerSilent(j)
         \/ TickSilent

\* every accepted search has delivered exactly one result when the run is over
OneResultEachDone ==
    /\ \A i, j \in 1..Len(results) : i # j => results[i] # results[j]
    /\ \A g \in accepted : \E i \in 1..Len(results) : results[i] = g
    /\ \A i \in 1..Len(results) : results[i] \in accepted

TSpec == TInit /\ [][TNext]_tvars

AllConsumed == /\ ic = Len(CE)
               /\ \A k \in 1..NR : ir[k] = Len(T.r[k])
               /\ \A j \in 1..NT : it[j] = Len(T.t[j])

\* Acceptance (registers are set from a state constraint, one worker):
\*   register 3: some interleaving consumes all events - the run is a behaviour of the model;
\*   register 1: and in that interleaving the lifecycle properties hold.  The properties are
\*   evaluated only where everything is consumed: the ghost variables they read are histories, and
\*   interleavings that cannot be completed say nothing about the real run.
Mark == /\ (AllConsumed => TLCSet(3, TRUE))
        /\ ((AllConsumed /\ OneResultEachDone /\ OwnStopOnly /\ NoResultBeforeStop) => TLCSet(1, TRUE))
        /\ TLCSet(2, IF TLCGet(2) < ic THEN ic ELSE TLCGet(2))
Report == PrintT(<<"LIFE-VERDICT", TLCGet(3), TLCGet(1), TLCGet(2), Len(CE)>>)
=============================================================================
