-------------------------- MODULE SearchLifecycleGen --------------------------
(***************************************************************************)
(* SearchLifecycle as a GENERATOR of schedules for the real code           *)
(* (properties C12, C14; specification -> implementation direction).       *)
(*                                                                         *)
(* Every step of a behaviour of this module is one step of one goroutine   *)
(* of the real engine between two hook points of internal/search           *)
(* (build tag verif): the conformance driver (life-gate) holds every       *)
(* goroutine at its hook and releases exactly the goroutine whose step the *)
(* behaviour takes next, so the real engine is forced through the          *)
(* interleaving TLC chose.  `act` says which step was taken, with which    *)
(* outcome, and what the real engine must show afterwards.                 *)
(*                                                                         *)
(* Differences from SearchLifecycle (all restrictions of its behaviours,   *)
(* or compositions of two of its steps - every behaviour here, with the    *)
(* added variables hidden, is a behaviour of SearchLifecycle):             *)
(*  - only the repaired code is generated (all Fix* constants TRUE);       *)
(*  - a search either ends by itself (depth limit; selfend) or runs until  *)
(*    it sees the stop flag: RunWork is enabled accordingly, because the   *)
(*    real search work between two hooks cannot be told to finish;         *)
(*  - where the code has no hook between two model steps they are taken    *)
(*    together: leaving the wait loop + storing the result (RunFinish),    *)
(*    the timer's loop exit + its final test (TimerLeave);                 *)
(*  - the stuttering steps of the two polling loops (r.wait, t.poll) are   *)
(*    taken a bounded number of times (they are visible to the driver as   *)
(*    hook events).                                                        *)
(***************************************************************************)
EXTENDS SearchLifecycle, Json

VARIABLES act,      \* the step just taken, as a JSON string (one line per state in TLC's output)
          last,     \* ... and as a record (for the scenario goals below)
          selfend,  \* search id -> the search work ends by itself (depth limit)
          waits,    \* search id -> iterations of the wait loop seen
          tpolls,   \* timer id -> iterations of the timer loop seen
          armed     \* the start request under way began while a timer's stop was pending (scenario goal 12)

gvars == <<vars, act, last, selfend, waits, tpolls, armed>>

MaxLoop == 2

GInit == /\ Init
         /\ act = "init"
         /\ last = [l |-> "init", k |-> "c", i |-> 0, x |-> "", srch |-> FALSE, nres |-> 0, spawn |-> 0, alive |-> 0]
         /\ selfend = [g \in SIds |-> FALSE]
         /\ waits = [g \in SIds |-> 0]
         /\ tpolls = [t \in TIds |-> 0]
         /\ armed = FALSE

\* the timer a step spawned (0 = none)
Spawned == IF \E t \in TIds : tpc[t] = "unborn" /\ tpc'[t] # "unborn"
           THEN CHOOSE t \in TIds : tpc[t] = "unborn" /\ tpc'[t] # "unborn" ELSE 0

Rec(l, k, i, x) == [l |-> l, k |-> k, i |-> i, x |-> x, srch |-> Searching', nres |-> Len(results'), spawn |-> Spawned,
                    alive |-> Cardinality({t \in TIds : tpc'[t] \notin {"unborn", "dead"}})]   \* timer goroutines alive after the step
Log(l, k, i, x) == /\ last' = Rec(l, k, i, x)
                   /\ act' = ToJson(Rec(l, k, i, x))
Keep == UNCHANGED <<selfend, waits, tpolls, armed>>

\* ---------------------------------------------------------------- controller
GCallStart == \E m \in Modes, se \in BOOLEAN :
    /\ (m = "depth" => se)
    /\ CallStart(m)
    /\ selfend' = [selfend EXCEPT ![nstarts + 1] = se]
    /\ UNCHANGED <<waits, tpolls, armed>>
    /\ Log("call.start", "c", nstarts + 1, <<m, se>>)

GCtrl ==
    \/ GCallStart
    \/ /\ StartAcq1 /\ UNCHANGED <<selfend, waits, tpolls>> /\ Log("c.start.acq1", "c", 0, "")
       /\ armed' = (stopFlag /\ lastSetter[1] = "timer")
    \/ StartStore /\ Keep /\ Log("c.start.store", "c", 0, "")
    \/ StartSpawn /\ Keep /\ Log("c.start.spawn", "c", nstarts + 1, "")
    \/ StartAcq2 /\ Keep /\ Log("c.start.acq2", "c", 0, "")
    \/ StartRel /\ Keep /\ Log("c.start.rel", "c", 0, "")
    \/ \E k \in {"stop", "newgame"} : CallStop /\ Keep /\ Log("c.stop.set", "c", 0, k)     \* NewGame = StopSearch, then the tables are cleared
    \/ CallWait /\ Keep /\ Log("call.wait", "c", 0, "")
    \/ WaitAcq /\ Keep /\ Log("c.wait.acq", "c", 0, IF cpc'[2] = "queued" THEN "queued" ELSE "ok")
    \/ WaitGranted /\ Keep /\ Log("c.wait.acq", "c", 0, "granted")
    \/ WaitRel /\ Keep /\ Log("c.wait.rel", "c", 0, "")
    \/ CallPonderHit /\ Keep /\ Log("call.ponderhit", "c", 0, IF Searching /\ limits = "ponder" THEN "timer" ELSE "none")
    \* the calls that only look at the lifecycle: IsSearching itself, and ClearHash / ResizeCache (refused exactly while
    \* IsSearching) and IsReady (answered in every state)
    \* ... and "setopt": a configuration option is set (at the wire: setoption + a configuration print-out); it must take
    \* effect whenever no started search is unanswered - also while the answering search has not yet released itself
    \/ \E q \in {"issearching", "clearhash", "resize", "isready", "setopt"} : CallIsSearching /\ Keep /\ Log("call.query", "c", 0, q)

\* ---------------------------------------------------------------- search goroutine
GRunWork(g) ==
    /\ selfend[g] \/ stopFlag
    /\ RunWork(g) /\ (stopFlag => stopSeen'[g] = lastSetter)
    /\ Keep /\ Log("r.done", "r", g, IF stopFlag THEN "stopped" ELSE "finished")

GRunWaitLoop(g) ==    \* one more iteration of the wait loop of an unlimited search that finished early
    /\ spc[g] = "done" /\ Unlimited(smode[g]) /\ ~stopFlag /\ waits[g] < MaxLoop
    /\ waits' = [waits EXCEPT ![g] = @ + 1]
    /\ UNCHANGED <<vars, selfend, tpolls, armed>>
    /\ Log("r.wait", "r", g, "")

GRunFinish(g) ==      \* RunWait (leaving) and RunEndSet: no hook in between
    /\ spc[g] = "done" /\ ~(Unlimited(smode[g]) /\ ~stopFlag)
    /\ stopSeen' = IF stopFlag /\ stopSeen[g] = <<"none">> THEN [stopSeen EXCEPT ![g] = lastSetter] ELSE stopSeen
    /\ stopFlag' = TRUE /\ lastSetter' = <<"end", g>> /\ hasResult' = g
    /\ spc' = [spc EXCEPT ![g] = "send"]
    /\ UNCHANGED <<SUnch, initSem, runHolder, runWaiter, timeLimit, limits, smode, tpc, towner, tstart, gen, results,
                   accepted, ctrlStops, hits>>
    /\ Keep /\ Log("r.end.set", "r", g, "")

GSearch(g) ==
    \/ RunTry(g) /\ Keep /\ Log(IF spc'[g] = "rejected" THEN "r.try.fail" ELSE "r.try.ok", "r", g,
                                IF spc'[g] = "queued" THEN "queued" ELSE IF spc'[g] = "rejected" THEN "rejected" ELSE "ok")
    \/ RunGranted(g) /\ Keep /\ Log("r.try.ok", "r", g, "granted")
    \/ RunReset(g) /\ Keep /\ Log("r.reset", "r", g, "")
    \/ RunTl0(g) /\ Keep /\ Log("r.tl0", "r", g, "")
    \/ RunSetup(g) /\ Keep /\ Log("r.setup", "r", g, "")
    \/ RunTimer(g) /\ Keep /\ Log("r.timer", "r", g, "")
    \/ RunInitRel(g) /\ Keep /\ Log("r.init.rel", "r", g, "")
    \/ GRunWork(g)
    \/ GRunWaitLoop(g)
    \/ GRunFinish(g)
    \/ RunSend(g) /\ Keep /\ Log("r.sent", "r", g, "")
    \/ RunRel(g) /\ Keep /\ Log("r.rel", "r", g, "")

\* ---------------------------------------------------------------- timer goroutine
LoopOn(t) == clock - tstart[t] < timeLimit /\ ~stopFlag /\ gen = towner[t][2]

GTimerLoop(t) ==      \* the loop test holds: one more 5 ms sleep
    /\ tpc[t] = "tpoll" /\ LoopOn(t) /\ tpolls[t] < MaxLoop
    /\ tpolls' = [tpolls EXCEPT ![t] = @ + 1]
    /\ UNCHANGED <<vars, selfend, waits, armed>>
    /\ Log("t.poll", "t", t, "")

GTimerLeave(t) ==     \* TimerPoll (leaving) and TimerCheck: no hook in between
    /\ tpc[t] = "tpoll" /\ ~LoopOn(t)
    /\ IF stopFlag \/ gen # towner[t][2]
       THEN UNCHANGED <<stopFlag, lastSetter>>
       ELSE stopFlag' = TRUE /\ lastSetter' = <<"timer", t>>
    /\ tpc' = [tpc EXCEPT ![t] = "dead"]
    /\ UNCHANGED <<TUnch, towner, tstart>>
    /\ Keep /\ Log(IF stopFlag \/ gen # towner[t][2] THEN "t.exit" ELSE "t.fire", "t", t, "")

GTimer(t) ==
    \/ TimerStart(t) /\ Keep /\ Log("t.start", "t", t, "")
    \/ GTimerLoop(t)
    \/ GTimerLeave(t)

GTick == Tick /\ Keep /\ Log("tick", "x", 0, "")

GNext == GCtrl \/ (\E g \in SIds : GSearch(g)) \/ (\E t \in TIds : GTimer(t)) \/ GTick

GSpec == GInit /\ [][GNext]_gvars

\* ---------------------------------------------------------------- scenario goals
\* Interleavings worth forcing that a random walk through the model hardly ever takes.  Each goal is a state predicate; TLC is
\* asked for the invariant "never Goal(n)" and its counterexample - the shortest behaviour that gets there - is replayed in the
\* real engine like the simulated behaviours (the replayer finishes the run freely and the property monitors judge it).
Owner(t) == towner[t][1]
Goal(n) ==
    CASE n = 1 -> last.l = "r.timer" /\ last.spawn # 0 /\ last.alive >= 2            \* a search starts its timer while a timer of an earlier search is still alive
      [] n = 2 -> last.l = "call.ponderhit" /\ last.spawn # 0 /\ last.alive >= 2     \* ... a ponderhit does
      [] n = 3 -> last.l = "r.try.ok" /\ last.x = "queued"                           \* a start meets a search that has its result but not yet released
      [] n = 4 -> last.l = "r.try.fail" /\ \E g \in SIds : spc[g] = "done" /\ waits[g] > 0   \* a start meets a finished infinite search in its wait loop
      [] n = 5 -> last.l = "t.exit" /\ \E g \in SIds : gen = g /\ Owner(last.i) # g /\ spc[g] \in {"work", "done"}   \* a stale timer wakes up inside a later search
      [] n = 6 -> last.l = "t.fire" /\ cpc[1] = "wait"                               \* a timer fires while the controller is stopping the search
      [] n = 7 -> last.l = "c.stop.set" /\ \E g \in SIds : spc[g] = "done" /\ ~Unlimited(smode[g])   \* stop between the end of the search work and the result
      [] n = 8 -> last.l = "t.start" /\ Owner(last.i) \in SIds /\ spc[Owner(last.i)] = "dead" /\ \E g \in SIds : gen = g /\ g # Owner(last.i) /\ spc[g] \in {"work", "done"}
                                                                                     \* a timer goroutine gets to run only when its search is over and the next one runs
      [] n = 9 -> last.l = "call.ponderhit" /\ last.spawn # 0 /\ \E g \in SIds : smode[g] = "ponder" /\ spc[g] \in {"send", "rel"}   \* ponderhit meets a ponder search that is just answering: its timer is stale from birth
      [] n = 10 -> last.l = "r.try.ok" /\ last.x = "granted" /\ last.alive >= 1      \* a queued start is let in while an old timer is alive
      [] n = 11 -> last.l = "call.query" /\ last.x \in {"clearhash", "resize"} /\ \E g \in SIds : spc[g] \in {"send", "rel"}   \* hash cleared / resized while a result is being sent
      [] n = 12 -> last.l = "r.try.fail" /\ armed /\ stopFlag /\ \E g \in SIds : spc[g] = "work" /\ ~selfend[g]
                                                                                     \* a start request is issued and rejected while the running search has not yet seen the stop of its own timer
      [] n = 13 -> last.l = "call.query" /\ last.x = "setopt" /\ \E g \in SIds : spc[g] = "rel" /\ Len(results) = Cardinality(accepted)
                                                                                     \* an option is set between a search's answer and its release (the GUI has its bestmove: the moment is protocol-valid)
      [] OTHER -> FALSE
NoGoal1 == ~Goal(1)
NoGoal2 == ~Goal(2)
NoGoal3 == ~Goal(3)
NoGoal4 == ~Goal(4)
NoGoal5 == ~Goal(5)
NoGoal6 == ~Goal(6)
NoGoal7 == ~Goal(7)
NoGoal8 == ~Goal(8)
NoGoal9 == ~Goal(9)
NoGoal10 == ~Goal(10)
NoGoal11 == ~Goal(11)
NoGoal12 == ~Goal(12)
NoGoal13 == ~Goal(13)

\* the lifecycle properties hold on everything generated (they are checked again on the real run)
GProps == TypeOK /\ NoCtrlStuck /\ OneResultEach /\ OwnStopOnly /\ NoResultBeforeStop
=============================================================================
