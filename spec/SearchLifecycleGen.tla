-------------------------- MODULE SearchLifecycleGen --------------------------
(***************************************************************************)
(* SearchLifecycle as a GENERATOR of schedules for the real code           *)
(* (properties C12, C14; specification -> implementation direction).       *)
(*                                                                         *)
(* Every step of a behaviour of this module is one step of one goroutine   *)
(* of the real engine between two hook points of internal/search           *)
(* (build tag verif): the conformance driver (life-gate) holds every       *)
(* goroutine at its hook and releases exactly the goroutine whose step the *)
(* behaviour takes next, so the real engine is forced through the          *)
(* interleaving TLC chose.  `act` says which step was taken, with which    *)
(* outcome, and what the real engine must show afterwards.                 *)
(*                                                                         *)
(* Differences from SearchLifecycle (all restrictions of its behaviours,   *)
(* or compositions of two of its steps - every behaviour here, with the    *)
(* added variables hidden, is a behaviour of SearchLifecycle):             *)
(*  - only the repaired code is generated (all Fix* constants TRUE);       *)
(*  - a search either ends by itself (depth limit; selfend) or runs until  *)
(*    it sees the stop flag: RunWork is enabled accordingly, because the   *)
(*    real search work between two hooks cannot be told to finish;         *)
(*  - where the code has no hook between two model steps they are taken    *)
(*    together: leaving the wait loop + storing the result (RunFinish),    *)
(*    the timer's loop exit + its final test (TimerLeave);                 *)
(*  - the stuttering steps of the two polling loops (r.wait, t.poll) are   *)
(*    taken a bounded number of times (they are visible to the driver as   *)
(*    hook events).                                                        *)
(***************************************************************************)
EXTENDS SearchLifecycle, Json

VARIABLES act,      \* the step just taken
          selfend,  \* search id -> the search work ends by itself (depth limit)
          waits,    \* search id -> iterations of the wait loop seen
          tpolls    \* timer id -> iterations of the timer loop seen

gvars == <<vars, act, selfend, waits, tpolls>>

MaxLoop == 2

GInit == /\ Init
         /\ act = "init"
         /\ selfend = [g \in SIds |-> FALSE]
         /\ waits = [g \in SIds |-> 0]
         /\ tpolls = [t \in TIds |-> 0]

\* the timer a step spawned (0 = none)
Spawned == IF \E t \in TIds : tpc[t] = "unborn" /\ tpc'[t] # "unborn"
           THEN CHOOSE t \in TIds : tpc[t] = "unborn" /\ tpc'[t] # "unborn" ELSE 0

\* (a JSON string: one line per state in TLC's simulation output)
Log(l, k, i, x) == act' = ToJson([l |-> l, k |-> k, i |-> i, x |-> x, srch |-> Searching', nres |-> Len(results'), spawn |-> Spawned])
Keep == UNCHANGED <<selfend, waits, tpolls>>

\* ---------------------------------------------------------------- controller
GCallStart == \E m \in Modes, se \in BOOLEAN :
    /\ (m = "depth" => se)
    /\ CallStart(m)
    /\ selfend' = [selfend EXCEPT ![nstarts + 1] = se]
    /\ UNCHANGED <<waits, tpolls>>
    /\ Log("call.start", "c", nstarts + 1, <<m, se>>)

GCtrl ==
    \/ GCallStart
    \/ StartAcq1 /\ Keep /\ Log("c.start.acq1", "c", 0, "")
    \/ StartStore /\ Keep /\ Log("c.start.store", "c", 0, "")
    \/ StartSpawn /\ Keep /\ Log("c.start.spawn", "c", nstarts + 1, "")
    \/ StartAcq2 /\ Keep /\ Log("c.start.acq2", "c", 0, "")
    \/ StartRel /\ Keep /\ Log("c.start.rel", "c", 0, "")
    \/ CallStop /\ Keep /\ Log("c.stop.set", "c", 0, "")
    \/ CallWait /\ Keep /\ Log("call.wait", "c", 0, "")
    \/ WaitAcq /\ Keep /\ Log("c.wait.acq", "c", 0, IF cpc'[2] = "queued" THEN "queued" ELSE "ok")
    \/ WaitGranted /\ Keep /\ Log("c.wait.acq", "c", 0, "granted")
    \/ WaitRel /\ Keep /\ Log("c.wait.rel", "c", 0, "")
    \/ CallPonderHit /\ Keep /\ Log("call.ponderhit", "c", 0, IF Searching /\ limits = "ponder" THEN "timer" ELSE "none")
    \/ CallIsSearching /\ Keep /\ Log("call.issearching", "c", 0, "")

\* ---------------------------------------------------------------- search goroutine
GRunWork(g) ==
    /\ selfend[g] \/ stopFlag
    /\ RunWork(g) /\ (stopFlag => stopSeen'[g] = lastSetter)
    /\ Keep /\ Log("r.done", "r", g, IF stopFlag THEN "stopped" ELSE "finished")

GRunWaitLoop(g) ==    \* one more iteration of the wait loop of an unlimited search that finished early
    /\ spc[g] = "done" /\ Unlimited(smode[g]) /\ ~stopFlag /\ waits[g] < MaxLoop
    /\ waits' = [waits EXCEPT ![g] = @ + 1]
    /\ UNCHANGED <<vars, selfend, tpolls>>
    /\ Log("r.wait", "r", g, "")

GRunFinish(g) ==      \* RunWait (leaving) and RunEndSet: no hook in between
    /\ spc[g] = "done" /\ ~(Unlimited(smode[g]) /\ ~stopFlag)
    /\ stopSeen' = IF stopFlag /\ stopSeen[g] = <<"none">> THEN [stopSeen EXCEPT ![g] = lastSetter] ELSE stopSeen
    /\ stopFlag' = TRUE /\ lastSetter' = <<"end", g>> /\ hasResult' = g
    /\ spc' = [spc EXCEPT ![g] = "send"]
    /\ UNCHANGED <<SUnch, initSem, runHolder, runWaiter, timeLimit, limits, smode, tpc, towner, tstart, gen, results,
                   accepted, ctrlStops, hits>>
    /\ Keep /\ Log("r.end.set", "r", g, "")

GSearch(g) ==
    \/ RunTry(g) /\ Keep /\ Log(IF spc'[g] = "rejected" THEN "r.try.fail" ELSE "r.try.ok", "r", g,
                                IF spc'[g] = "queued" THEN "queued" ELSE IF spc'[g] = "rejected" THEN "rejected" ELSE "ok")
    \/ RunGranted(g) /\ Keep /\ Log("r.try.ok", "r", g, "granted")
    \/ RunReset(g) /\ Keep /\ Log("r.reset", "r", g, "")
    \/ RunTl0(g) /\ Keep /\ Log("r.tl0", "r", g, "")
    \/ RunSetup(g) /\ Keep /\ Log("r.setup", "r", g, "")
    \/ RunTimer(g) /\ Keep /\ Log("r.timer", "r", g, "")
    \/ RunInitRel(g) /\ Keep /\ Log("r.init.rel", "r", g, "")
    \/ GRunWork(g)
    \/ GRunWaitLoop(g)
    \/ GRunFinish(g)
    \/ RunSend(g) /\ Keep /\ Log("r.sent", "r", g, "")
    \/ RunRel(g) /\ Keep /\ Log("r.rel", "r", g, "")

\* ---------------------------------------------------------------- timer goroutine
LoopOn(t) == clock - tstart[t] < timeLimit /\ ~stopFlag /\ gen = towner[t][2]

GTimerLoop(t) ==      \* the loop test holds: one more 5 ms sleep
    /\ tpc[t] = "tpoll" /\ LoopOn(t) /\ tpolls[t] < MaxLoop
    /\ tpolls' = [tpolls EXCEPT ![t] = @ + 1]
    /\ UNCHANGED <<vars, selfend, waits>>
    /\ Log("t.poll", "t", t, "")

GTimerLeave(t) ==     \* TimerPoll (leaving) and TimerCheck: no hook in between
    /\ tpc[t] = "tpoll" /\ ~LoopOn(t)
    /\ IF stopFlag \/ gen # towner[t][2]
       THEN UNCHANGED <<stopFlag, lastSetter>>
       ELSE stopFlag' = TRUE /\ lastSetter' = <<"timer", t>>
    /\ tpc' = [tpc EXCEPT ![t] = "dead"]
    /\ UNCHANGED <<TUnch, towner, tstart>>
    /\ Keep /\ Log(IF stopFlag \/ gen # towner[t][2] THEN "t.exit" ELSE "t.fire", "t", t, "")

GTimer(t) ==
    \/ TimerStart(t) /\ Keep /\ Log("t.start", "t", t, "")
    \/ GTimerLoop(t)
    \/ GTimerLeave(t)

GTick == Tick /\ Keep /\ Log("tick", "x", 0, "")

GNext == GCtrl \/ (\E g \in SIds : GSearch(g)) \/ (\E t \in TIds : GTimer(t)) \/ GTick

GSpec == GInit /\ [][GNext]_gvars

\* the lifecycle properties hold on everything generated (they are checked again on the real run)
GProps == TypeOK /\ NoCtrlStuck /\ OneResultEach /\ OwnStopOnly /\ NoResultBeforeStop
=============================================================================
