------------------------------- MODULE ChessGame -------------------------------
(***************************************************************************)
(* The game of chess as a state machine over ChessRules.                   *)
(*                                                                         *)
(* pos    the current position                                             *)
(* hist   identities of the earlier positions of the game (for repetition) *)
(* stack  saved <<pos, hist, kind, legal>> tuples, one per move / null     *)
(*        move not yet undone - the engine's do/undo discipline            *)
(* path   the operations executed since the root, so that the state graph  *)
(*        is the game TREE: the number of states at depth d under cfg      *)
(*        "tree" is perft(d).  kinds runs parallel to path and carries the *)
(*        move kind (normal/promotion/en passant/castling) and the piece   *)
(*        captured, so that an observation record can be replayed alone.   *)
(* root   index of the root position in RootsFile                          *)
(* legal  Legal(pos), cached in the state so that TLC evaluates the move   *)
(*        rules once per state (invariant LegalCached ties it to the rules)*)
(*                                                                         *)
(* Every distinct state prints one observation record (invariant Obs),     *)
(* which the Go conformance driver replays against the real engine.        *)
(***************************************************************************)
EXTENDS ChessRules, TLC, Json

CONSTANTS RootsFile,    \* ndjson file with the root positions
          MaxDepth,     \* bound on Len(path)
          MaxStack,     \* bound on Len(stack) (do/undo nesting)
          Acts,         \* subset of {"Move","Undo","Null","UndoNull"} enabled in this cfg
          Detail,       \* subset of {"pseudo","att","san","mirror"}: optional observation fields
          Thin,         \* 1 = every legal move is explored; k > 1 = a pseudo-random k-th of them
                        \* (thins the do/undo behaviours so that undos are not drowned by moves)
          Walks,        \* 0 = off; n > 0 = generator mode: n pseudo-random games (one per initial state), the
                        \* move is picked INSIDE the action by a linear congruential generator so that TLC
                        \* generates exactly the states of the games (no fringe of unplayed successors)
          WalkSeed

VARIABLES pos, hist, stack, path, kinds, root, legal, rng

vars == <<pos, hist, stack, path, kinds, root, legal, rng>>

RootRecs == ndJsonDeserialize(RootsFile)

RootPos(i) ==
    LET r == RootRecs[i] IN
    [board |-> [s \in Squares |-> r.board[s + 1]],
     stm   |-> r.stm,
     cr    |-> {r.cr[k] : k \in DOMAIN r.cr},
     ep    |-> r.ep,
     hmc   |-> r.hmc,
     fmn   |-> r.fmn]

Lcg(x) == (x * 75 + 74) % 65537
RECURSIVE LcgN(_, _)
LcgN(x, n) == IF n = 0 THEN x ELSE LcgN(Lcg(x), n - 1)

\* generator mode: the k-th legal move in the order of the move codes; the first plies pick among
\* few moves only, so that the games share prefixes, transpose and repeat
PickMove(L, r, ply) ==
    LET n == Cardinality(L)
        w == IF ply < 6 /\ n > 3 THEN 3 ELSE n
        k == r % w
    IN CHOOSE x \in L : Cardinality({y \in L : y < x}) = k

Init == \/ /\ Walks = 0
           /\ rng = 0
           /\ \E i \in 1..Len(RootRecs) :
                /\ root = i
                /\ pos = RootPos(i)
                /\ legal = Legal(RootPos(i))
           /\ hist = <<>> /\ stack = <<>> /\ path = <<>> /\ kinds = <<>>
        \/ /\ Walks > 0
           /\ \E w \in 1..Walks :
                /\ rng = LcgN((w * 7919 + WalkSeed * 10473 + 17) % 65537, 3)
                /\ root = ((w - 1) % Len(RootRecs)) + 1
                /\ pos = RootPos(((w - 1) % Len(RootRecs)) + 1)
                /\ legal = Legal(RootPos(((w - 1) % Len(RootRecs)) + 1))
           /\ hist = <<>> /\ stack = <<>> /\ path = <<>> /\ kinds = <<>>

\* path entries: a move code (>= 0), -1 = undo, -2 = null move, -3 = undo null move
UNDO == -1
NULL == -2
UNDONULL == -3

\* the undo stack is kept only in configurations that can undo
KeepStack == "Undo" \in Acts \/ "UndoNull" \in Acts
\* (the history needs no copy: every made move and null move appends exactly one entry, undo drops it)
Push(kind) == IF KeepStack THEN Append(stack, <<pos, kind, legal>>) ELSE stack

\* generator mode with undo ("deep" configurations): walk out until the stack is full or the game is over,
\* then unwind completely - the do/undo pattern of a search that reaches its maximal depth
Unwinding == path # <<>> /\ path[Len(path)] = -1

Move(m) ==
    /\ "Move" \in Acts
    /\ Len(path) < MaxDepth
    /\ Len(stack) < MaxStack
    /\ m \in legal
    /\ (m + 3 * Len(path) + root) % Thin = 0
    /\ Walks > 0 => m = PickMove(legal, rng, Len(path))
    /\ (Walks > 0 /\ "Undo" \in Acts) => ~Unwinding
    /\ rng' = IF Walks > 0 THEN Lcg(rng) ELSE rng
    /\ pos' = Apply(pos, m)
    /\ hist' = Append(hist, Ident(pos))
    /\ stack' = Push("m")
    /\ path' = Append(path, m)
    /\ kinds' = Append(kinds, <<KindOf(pos, m), Captured(pos, m)>>)
    /\ legal' = Legal(pos')
    /\ UNCHANGED root

\* a null move is made only when the side to move is not in check (as a search does)
NullMove ==
    /\ "Null" \in Acts
    /\ Len(path) < MaxDepth
    /\ Len(stack) < MaxStack
    /\ ~InCheck(pos)
    /\ pos' = ApplyNull(pos)
    /\ hist' = Append(hist, Ident(pos))
    /\ stack' = Push("n")
    /\ path' = Append(path, NULL)
    /\ kinds' = Append(kinds, <<0, 0>>)
    /\ legal' = Legal(pos')
    /\ UNCHANGED <<root, rng>>

Undo ==
    /\ "Undo" \in Acts
    /\ Len(path) < MaxDepth
    /\ stack # <<>>
    /\ stack[Len(stack)][2] = "m"
    /\ Walks > 0 => (Len(stack) = MaxStack \/ legal = {} \/ Unwinding)
    /\ pos' = stack[Len(stack)][1]
    /\ hist' = SubSeq(hist, 1, Len(hist) - 1)
    /\ legal' = stack[Len(stack)][3]
    /\ stack' = SubSeq(stack, 1, Len(stack) - 1)
    /\ path' = Append(path, UNDO)
    /\ kinds' = Append(kinds, <<0, 0>>)
    /\ UNCHANGED <<root, rng>>

UndoNull ==
    /\ "UndoNull" \in Acts
    /\ Len(path) < MaxDepth
    /\ stack # <<>>
    /\ stack[Len(stack)][2] = "n"
    /\ pos' = stack[Len(stack)][1]
    /\ hist' = SubSeq(hist, 1, Len(hist) - 1)
    /\ legal' = stack[Len(stack)][3]
    /\ stack' = SubSeq(stack, 1, Len(stack) - 1)
    /\ path' = Append(path, UNDONULL)
    /\ kinds' = Append(kinds, <<0, 0>>)
    /\ UNCHANGED <<root, rng>>

Next == (\E m \in legal : Move(m)) \/ NullMove \/ Undo \/ UndoNull

Spec == Init /\ [][Next]_vars

-----------------------------------------------------------------------------
(* Invariants of the specification itself                                  *)

TypeOK ==
    /\ pos.board \in [Squares -> {Empty} \cup PieceCodes]
    /\ pos.stm \in Colors
    /\ pos.cr \subseteq {"K", "Q", "k", "q"}
    /\ pos.ep \in {-1} \cup Squares
    /\ pos.hmc \in Nat
    /\ pos.fmn \in Nat

PosWellFormed == WellFormed(pos)

LegalCached == legal = Legal(pos)

\* an earlier identical position implies at least four reversible plies in between
RepImpliesClock == RepCount(hist, pos) >= 1 => pos.hmc >= 4

\* the mirror image behaves as the mirror image (validates Mirror, used by C15);
\* the full-move number is left out: it advances after Black's move on one side only
NoFmn(p) == [p EXCEPT !.fmn = 0]
MirrorCommutes ==
    /\ Legal(Mirror(pos)) = {MirrorMove(m) : m \in legal}
    /\ \A m \in legal : NoFmn(Apply(Mirror(pos), MirrorMove(m))) = NoFmn(Mirror(Apply(pos, m)))
    /\ InCheck(Mirror(pos)) = InCheck(pos)
    /\ Mirror(Mirror(pos)) = pos

\* SAN components denote exactly the move they were derived from
SanUnique ==
    \A m \in legal : LET c == SanOf(pos, m, legal) IN
        SanMatches(pos, legal, c.pt, c.ff, c.fr, c.to, c.promo, c.castle) = {m}

\* the two generation classes partition the pseudo-legal moves under both switch settings
ClassesPartition ==
    \A b \in BOOLEAN : /\ NonQuiet(pos, b) \cup Quiet(pos, b) = PseudoLegal(pos)
                       /\ NonQuiet(pos, b) \cap Quiet(pos, b) = {}

-----------------------------------------------------------------------------
(* Observation                                                             *)

BoardSeq(b) == [i \in 1..64 |-> b[i - 1]]

PosRec(p) == [board |-> BoardSeq(p.board), stm |-> p.stm, cr |-> p.cr, ep |-> p.ep,
              hmc |-> p.hmc, fmn |-> p.fmn]

AttRec(b, c) == [i \in 1..64 |-> Attackers(b, i - 1, c)]

SanRec(p, L) == {[m |-> m, san |-> SanOf(p, m, L)] : m \in L}

ObsRec ==
    LET L == legal
        base == [root |-> root, path |-> path, kinds |-> kinds, depth |-> Len(hist),
                 board |-> BoardSeq(pos.board), stm |-> pos.stm, cr |-> pos.cr,
                 ep |-> pos.ep, hmc |-> pos.hmc, fmn |-> pos.fmn,
                 legal |-> L, inCheck |-> InCheck(pos),
                 rep |-> RepCount(hist, pos),
                 mat |-> MaterialClass(pos.board)]
        e1 == IF "pseudo" \in Detail
              THEN [pseudo |-> {[m |-> m, k |-> KindOf(pos, m), gives |-> GivesCheck(pos, m),
                                 nq0 |-> IsNonQuiet(pos, m, FALSE), nq1 |-> IsNonQuiet(pos, m, TRUE),
                                 c0 |-> GenClass(pos, m, FALSE), c1 |-> GenClass(pos, m, TRUE),
                                 cap |-> IsCapture(pos, m)] :
                                   m \in PseudoLegal(pos)}]
              ELSE [pseudo |-> {}]
        e2 == IF "att" \in Detail
              THEN [attW |-> AttRec(pos.board, WHITE), attB |-> AttRec(pos.board, BLACK),
                    epIsAtt |-> {<<s, c>> \in Squares \X Colors : EpConvIsAttacked(pos, s, c)},
                    epAttTo |-> {<<s, c, x>> \in Squares \X Colors \X Squares :
                                    x \in EpConvAttacksTo(pos, s, c)}]
              ELSE [attW |-> <<>>, attB |-> <<>>, epIsAtt |-> {}, epAttTo |-> {}]
        e3 == IF "san" \in Detail THEN [san |-> SanRec(pos, L)] ELSE [san |-> {}]
        e4 == IF "mirror" \in Detail THEN [mirror |-> <<PosRec(Mirror(pos))>>] ELSE [mirror |-> <<>>]
    IN base @@ e1 @@ e2 @@ e3 @@ e4

Obs == PrintT(<<"OBS", ToJson(ObsRec)>>)

=============================================================================
