---------------------------- MODULE ChessGameLong ----------------------------
(***************************************************************************)
(* LONG games that are not drawn by the fifty-move rule (properties C05 /   *)
(* C16: the engine keeps the history of a game in a fixed array; the       *)
(* longest game its position command accepts leaves room for the search    *)
(* depth and nothing else).  The walks of ChessGame pick moves uniformly:   *)
(* after a few dozen plies the pawns have moved, pieces are traded and the *)
(* half-move clock of the rest of the game is far beyond 100.  Here the    *)
(* side to move MANOEUVRES - it plays a reversible move (no pawn move, no  *)
(* capture) whenever it has one - until the half-move clock reaches a      *)
(* pseudo-random mark between Mark and Mark + 29; then it plays a pawn     *)
(* move or a capture if it has one.  From the initial position this gives  *)
(* a 383-ply game with (nearly) full material; from a locked pawn wall a   *)
(* dead-drawn king shuffle with a pawn step every sixty-odd plies - hash   *)
(* table chains that run in circles.                                       *)
(*                                                                         *)
(* Nothing of ChessGame is changed: the action below is Move(m) with the   *)
(* manoeuvring choice of m in place of PickMove.                           *)
(***************************************************************************)
EXTENDS ChessGame

CONSTANTS Mark,     \* manoeuvre: the half-move clock from which an irreversible move is due
          Policy    \* "manoeuvre" | "trade"

Reversible(p, m) == TypeOf(p.board[From(m)]) # PAWN /\ p.board[To(m)] = Empty

Kth(L, k) == CHOOSE x \in L : Cardinality({y \in L : y < x}) = k % Cardinality(L)

\* "trade": whoever can capture captures (three times out of four) - from roots with MORE material than a game starts with
\* (extra queens, an early capturing promotion) the walk trades down to bare kings and a few pieces, the last captures
\* often made by a king: positions whose history has seen more material than their board shows (properties C10 / C04:
\* whatever the engine keeps incrementally must say what the board says)
LongPick(p, L, r) ==
    LET rev == {m \in L : Reversible(p, m)}
        irr == L \ rev
        due == p.hmc >= Mark + (r % 30)
        caps == {m \in L : p.board[To(m)] # Empty}
    IN IF Policy = "trade" THEN (IF caps # {} /\ r % 4 # 0 THEN Kth(caps, r \div 4) ELSE Kth(L, r \div 4))
       ELSE IF due /\ irr # {} THEN Kth(irr, r)
       ELSE IF rev # {} THEN Kth(rev, r)
       ELSE Kth(L, r)

LongMove ==
    /\ Walks > 0
    /\ Len(path) < MaxDepth
    /\ legal # {}
    /\ LET m == LongPick(pos, legal, rng) IN
         /\ pos' = Apply(pos, m)
         /\ path' = Append(path, m)
         /\ kinds' = Append(kinds, <<KindOf(pos, m), Captured(pos, m)>>)
    /\ hist' = Append(hist, Ident(pos))
    /\ rng' = Lcg(rng)
    /\ legal' = Legal(pos')
    /\ UNCHANGED <<root, stack>>

LSpec == Init /\ [][LongMove]_vars

\* what the manoeuvring family is for: the games stay alive
NotFiftyMoveDrawn == Policy # "manoeuvre" \/ pos.hmc < 100 \/ legal = {}
=============================================================================
