---------------------------- MODULE ChessGameLong ----------------------------
(***************************************************************************)
(* LONG games that are not drawn by the fifty-move rule (properties C05 /   *)
(* C16: the engine keeps the history of a game in a fixed array; the       *)
(* longest game its position command accepts leaves room for the search    *)
(* depth and nothing else).  The walks of ChessGame pick moves uniformly:   *)
(* after a few dozen plies the pawns have moved, pieces are traded and the *)
(* half-move clock of the rest of the game is far beyond 100.  Here the    *)
(* side to move MANOEUVRES - it plays a reversible move (no pawn move, no  *)
(* capture) whenever it has one - until the half-move clock reaches a      *)
(* pseudo-random mark between Mark and Mark + 29; then it plays a pawn     *)
(* move or a capture if it has one.  From the initial position this gives  *)
(* a 383-ply game with (nearly) full material; from a locked pawn wall a   *)
(* dead-drawn king shuffle with a pawn step every sixty-odd plies - hash   *)
(* table chains that run in circles.                                       *)
(*                                                                         *)
(* Nothing of ChessGame is changed: the action below is Move(m) with the   *)
(* manoeuvring choice of m in place of PickMove.                           *)
(***************************************************************************)
EXTENDS ChessGame

CONSTANT Mark

Reversible(p, m) == TypeOf(p.board[From(m)]) # PAWN /\ p.board[To(m)] = Empty

Kth(L, k) == CHOOSE x \in L : Cardinality({y \in L : y < x}) = k % Cardinality(L)

LongPick(p, L, r) ==
    LET rev == {m \in L : Reversible(p, m)}
        irr == L \ rev
        due == p.hmc >= Mark + (r % 30)
    IN IF due /\ irr # {} THEN Kth(irr, r)
       ELSE IF rev # {} THEN Kth(rev, r)
       ELSE Kth(L, r)

LongMove ==
    /\ Walks > 0
    /\ Len(path) < MaxDepth
    /\ legal # {}
    /\ LET m == LongPick(pos, legal, rng) IN
         /\ pos' = Apply(pos, m)
         /\ path' = Append(path, m)
         /\ kinds' = Append(kinds, <<KindOf(pos, m), Captured(pos, m)>>)
    /\ hist' = Append(hist, Ident(pos))
    /\ rng' = Lcg(rng)
    /\ legal' = Legal(pos')
    /\ UNCHANGED <<root, stack>>

LSpec == Init /\ [][LongMove]_vars

\* what the family is for: the games stay alive
NotFiftyMoveDrawn == pos.hmc < 100 \/ legal = {}
=============================================================================
