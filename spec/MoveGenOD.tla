----------------------------- MODULE MoveGenOD -----------------------------
(***************************************************************************)
(* The phased ("on demand") move generator of internal/movegen as the      *)
(* state machine it is: GetNextMove / fillOnDemandMoveList, statement by   *)
(* statement, over ABSTRACT moves.  What a stage generates is an input:     *)
(*   cls[m]    generation class of move m (which stage produces it)        *)
(*               0 not a move of the position (a foreign PV move)          *)
(*               1 pawn non-quiet (od1)   2 officer captures (od2)         *)
(*               3 king captures (od3)    4 pawn quiet (od5)               *)
(*               5 castling (od6)         6 officer quiet (od7)            *)
(*               7 king quiet (od8)                                        *)
(*   cap[m]    what Position.IsCapturingMove answers for m                 *)
(*   evs[m]    m is generated when the evasion flag is set                 *)
(*   legalm[m] m is legal                                                  *)
(* The order inside a batch is the engine's business (sort values); the    *)
(* model keeps the batch as the SET of moves not yet taken and knows only  *)
(* that a PV move is sorted to the front of every batch that goes through  *)
(* updateSortValues (all stages but od3).  Bound to the code by            *)
(* MoveGenODTrace.tla (hook: stage, take index, batch length, pushed flag  *)
(* after every call).  Property C08.                                       *)
(*                                                                         *)
(* Stage numbers as in the code: 0 new, 1 pv, 2..9 od1..od8, 10 end.       *)
(***************************************************************************)
EXTENDS Integers, Sequences, FiniteSets, TLC

CONSTANTS Moves,        \* abstract moves of the exhaustive configuration (positive integers)
          WithEvasion   \* explore the evasion flag as well

VARIABLES cls, cap, evs, legalm, pv, mode, evasion,     \* inputs (never change)
          stage,        \* currentODStage
          rem,          \* moves of the current batch not yet taken
          n,            \* onDemandMoves.Len()
          take,         \* takeIndex
          pushed,       \* pvMovePushed
          fillev,       \* evasion argument of the fill in progress
          pc,           \* "idle" | "fill1" | "check" | "fill2" | "after2" | "ret"
          out           \* moves returned so far, 0 = MoveNone

inputs == <<cls, cap, evs, legalm, pv, mode, evasion>>
vars == <<cls, cap, evs, legalm, pv, mode, evasion, stage, rem, n, take, pushed, fillev, pc, out>>

NonQuietMode == mode \in {"all", "nonquiet"}
QuietMode == mode \in {"all", "quiet"}
FirstStage == IF NonQuietMode THEN 2 ELSE 5
ModeClasses == (IF NonQuietMode THEN {1, 2, 3} ELSE {}) \cup (IF QuietMode THEN {4, 5, 6, 7} ELSE {})
All == DOMAIN cls
Want == {m \in All : cls[m] \in ModeClasses}

\* what a stage generates: castling is skipped altogether under the evasion flag
Gen(c, ev) == IF c = 5 /\ ev THEN {} ELSE {m \in All : cls[m] = c /\ (ev => evs[m])}

InputsOK ==
    /\ \A m \in All : /\ cls[m] \in {2, 3} => cap[m]
                      /\ cls[m] \in 4..7 => ~cap[m]
                      /\ legalm[m] => (cls[m] # 0 /\ evs[m])    \* evasion generation omits only illegal moves
                      /\ (evasion /\ cls[m] = 5) => ~legalm[m]  \* no castling out of check
    /\ pv \in All \cup {0}

StartState ==
    /\ stage = 0 /\ rem = {} /\ n = 0 /\ take = 0 /\ pushed = FALSE /\ fillev = FALSE
    /\ pc = "idle" /\ out = <<>>

\* exhaustive configuration: every input over the abstract moves (classes in non-decreasing order:
\* the moves are interchangeable)
Init ==
    /\ cls \in [Moves -> 0..7] /\ \A a, b \in Moves : a < b => cls[a] <= cls[b]
    /\ cap \in [Moves -> BOOLEAN]
    /\ evasion \in (IF WithEvasion THEN BOOLEAN ELSE {FALSE})
    /\ evs \in [Moves -> BOOLEAN] /\ legalm \in [Moves -> BOOLEAN]
    /\ (~evasion => \A m \in Moves : evs[m] /\ legalm[m] = (cls[m] # 0))
    /\ pv \in Moves \cup {0}
    /\ mode \in {"all", "nonquiet", "quiet"}
    /\ InputsOK
    /\ StartState

Nones == Len(SelectSeq(out, LAMBDA x : x = 0))

\* ------------------------------------------------------------------ GetNextMove
CallBegin ==   \* entry: the evasion targets are computed, the list is filled when empty
    /\ pc = "idle" /\ Nones < 2
    /\ fillev' = evasion
    /\ pc' = IF n = 0 THEN "fill1" ELSE "check"
    /\ UNCHANGED <<inputs, stage, rem, n, take, pushed, out>>

\* one iteration of the loop of fillOnDemandMoveList
FillStep ==
    /\ pc \in {"fill1", "fill2"}
    /\ IF n = 0 /\ stage < 10
       THEN /\ UNCHANGED pc
            /\ CASE stage \in {0, 1} ->       \* odNew falls through to odPv
                      LET push == /\ pv # 0
                                  /\ \/ mode = "all"
                                     \/ mode = "nonquiet" /\ cap[pv]
                                     \/ mode = "quiet" /\ ~cap[pv]
                      IN /\ pushed' = (pushed \/ push)
                         /\ rem' = IF push THEN {pv} ELSE {}
                         /\ n' = IF push THEN 1 ELSE 0
                         /\ stage' = FirstStage
                 [] stage \in {2, 3, 4} ->    \* od1 od2 od3: pawn, officer, king captures
                      /\ rem' = Gen(stage - 1, fillev) /\ n' = Cardinality(Gen(stage - 1, fillev))
                      /\ stage' = stage + 1 /\ UNCHANGED pushed
                 [] stage = 5 ->              \* od4: quiet moves wanted?
                      /\ stage' = IF QuietMode THEN 6 ELSE 10
                      /\ UNCHANGED <<rem, n, pushed>>
                 [] stage \in {6, 7, 8, 9} -> \* od5 od6 od7 od8: pawn quiet, castling, officer quiet, king quiet
                      /\ rem' = Gen(stage - 2, fillev) /\ n' = Cardinality(Gen(stage - 2, fillev))
                      /\ stage' = stage + 1 /\ UNCHANGED pushed
       ELSE /\ pc' = IF pc = "fill1" THEN "check" ELSE "after2"
            /\ UNCHANGED <<stage, rem, n, pushed>>
    /\ UNCHANGED <<inputs, take, fillev, out>>

\* the batch that is being served went through updateSortValues (every generating stage but od3; after od3
\* the stage is 5): a PV move in it has the highest sort value and is at the front
BatchSorted == stage # 5
Skippable == stage # FirstStage /\ pushed /\ pv \in rem

ReturnNone ==
    /\ out' = Append(out, 0) /\ pc' = "idle"

Check ==
    /\ pc = "check"
    /\ IF n = 0
       THEN \* nothing left in any stage
            /\ ReturnNone /\ take' = 0 /\ pushed' = FALSE
            /\ UNCHANGED <<inputs, stage, rem, n, fillev>>
       ELSE \/ \* the PV move, returned earlier, is next: skip it
               /\ Skippable
               /\ pushed' = FALSE
               /\ IF take + 1 >= n
                  THEN \* it was the last of its batch: generate more - with the evasion flag FALSE, as the code does
                       /\ take' = 0 /\ n' = 0 /\ rem' = {} /\ fillev' = FALSE /\ pc' = "fill2"
                  ELSE /\ take' = take + 1 /\ rem' = rem \ {pv} /\ pc' = "ret" /\ UNCHANGED <<n, fillev>>
               /\ UNCHANGED <<inputs, stage, out>>
            \/ \* it is not next (or there is nothing to skip)
               /\ ~(Skippable /\ BatchSorted /\ take = 0)       \* sorted to the front: then it IS next
               /\ ~(Skippable /\ rem = {pv})
               /\ pc' = "ret"
               /\ UNCHANGED <<inputs, stage, rem, n, take, pushed, fillev, out>>

After2 ==      \* after the refill that follows a skipped PV move
    /\ pc = "after2"
    /\ IF n = 0 THEN ReturnNone ELSE pc' = "ret" /\ UNCHANGED out
    /\ UNCHANGED <<inputs, stage, rem, n, take, pushed, fillev>>

Ret ==
    /\ pc = "ret"
    /\ \E m \in rem :
          /\ Skippable => m # pv                        \* had it been next it would have been skipped
          /\ (~Skippable /\ pv \in rem /\ BatchSorted /\ take = 0) => m = pv   \* sorted to the front
          /\ out' = Append(out, m)
          /\ IF take + 1 >= n THEN take' = 0 /\ n' = 0 /\ rem' = {}
                              ELSE take' = take + 1 /\ rem' = rem \ {m} /\ UNCHANGED n
    /\ pc' = "idle"
    /\ UNCHANGED <<inputs, stage, pushed, fillev>>

Next == CallBegin \/ FillStep \/ Check \/ After2 \/ Ret

Spec == Init /\ [][Next]_vars

\* ------------------------------------------------------------------ properties
TypeOK ==
    /\ stage \in 0..10 /\ rem \subseteq All /\ n \in 0..Cardinality(All) /\ take \in 0..Cardinality(All)
    /\ pushed \in BOOLEAN /\ pc \in {"idle", "fill1", "check", "fill2", "after2", "ret"}

\* the batch bookkeeping is consistent: what is left is what the indices say
BatchSane == /\ pc \in {"idle", "check", "ret"} => Cardinality(rem) = n - take
             /\ take < n \/ (take = 0 /\ n = 0)

Returned == {out[i] : i \in {j \in 1..Len(out) : out[j] # 0}}
NoDup == \A i, j \in 1..Len(out) : (i # j /\ out[i] # 0) => out[i] # out[j]
Finished == pc = "idle" /\ Nones >= 1

\* the PV moves the property speaks about: none, one of the mode's own set, or (captures-only generation, which
\* the search uses with the hash move of the full search) any move of the position
PvInEnvelope == pv = 0 \/ pv \in Want \/ (mode = "nonquiet" /\ cls[pv] # 0)

\* once MoveNone is returned it stays MoveNone
NoneIsFinal == \A i \in 1..Len(out) : out[i] = 0 => \A j \in i..Len(out) : out[j] = 0

Exact ==       \* without the evasion flag: exactly the mode's set, each move once
    (Finished /\ ~evasion /\ PvInEnvelope) => (NoDup /\ Returned = Want)

PvFirst ==     \* a PV move of the set is delivered first
    (Len(out) >= 1 /\ pv # 0 /\ pv \in Want /\ (evasion => evs[pv])) => out[1] = pv

EvasionSound ==  \* with the evasion flag: only moves of the set, none twice, no legal move omitted
    (Finished /\ evasion /\ PvInEnvelope) =>
        /\ NoDup
        /\ Returned \subseteq Want
        /\ {m \in Want : legalm[m]} \subseteq Returned

\* a call always comes back: the stage never decreases and every fill iteration advances it
Progress == [][stage' >= stage]_vars
=============================================================================
