--------------------------------- MODULE MoveEnc ---------------------------------
(***************************************************************************)
(* The packed move encoding as an abstract record (property C17, second    *)
(* half).  A move value carries five independent fields:                   *)
(*     from, to  squares 0..63                                             *)
(*     type      0 normal, 1 promotion, 2 en passant, 3 castling           *)
(*     promo     1 N, 2 B, 3 R, 4 Q (stored for every move type)           *)
(*     value     sort value, Lo..Hi                                        *)
(* Laws: reading a field after Create returns what was put; SetValue(v)    *)
(* changes the value field only.  TLC enumerates all 65,536 combinations   *)
(* of the four move fields (one hub state per origin square) and prints    *)
(* each with its expected coordinate notation; the driver sweeps the value *)
(* dimension (boundary values for every tuple, the full range for a        *)
(* sample).                                                                *)
(***************************************************************************)
EXTENDS Integers, Sequences, TLC, Json

VARIABLES hub, rec

Squares == 0..63
Lo == -15001       \* "no value"
Hi == 15000

Create(f, t, ty, pr, v) == [from |-> f, to |-> t, type |-> ty, promo |-> pr, value |-> v]
SetValue(m, v) == [m EXCEPT !.value = v]
MoveOf(m) == [m EXCEPT !.value = Lo]

SqName(s) == <<"a", "b", "c", "d", "e", "f", "g", "h">>[(s % 8) + 1] \o ToString((s \div 8) + 1)
Uci(m) == SqName(m.from) \o SqName(m.to) \o (IF m.type = 1 THEN <<"N", "B", "R", "Q">>[m.promo] ELSE "")

Init == hub \in Squares /\ rec = <<>>
Next == /\ rec = <<>>
        /\ \E t \in Squares, ty \in 0..3, pr \in 1..4 : rec' = <<hub, t, ty, pr>>
        /\ UNCHANGED hub

\* the laws on the abstract record (checked by TLC for boundary values on every tuple)
Laws ==
    rec = <<>> \/
    \A v \in {Lo, -10000, -1, 0, 1, 10000, Hi} :
        LET m == Create(rec[1], rec[2], rec[3], rec[4], v) IN
        /\ m.from = rec[1] /\ m.to = rec[2] /\ m.type = rec[3] /\ m.promo = rec[4] /\ m.value = v
        /\ \A w \in {Lo, 0, Hi} : MoveOf(SetValue(m, w)) = MoveOf(m) /\ SetValue(m, w).value = w

Out == rec = <<>> \/ PrintT(<<"MV", ToJson([f |-> rec[1], t |-> rec[2], ty |-> rec[3], pr |-> rec[4],
                                            uci |-> Uci(Create(rec[1], rec[2], rec[3], rec[4], 0))])>>)
=============================================================================
