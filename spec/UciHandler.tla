------------------------------- MODULE UciHandler -------------------------------
(***************************************************************************)
(* The state behind a UCI session (property C12, position / new-game       *)
(* clauses; also the "still holds the last validly set position" clause of *)
(* C16): on top of the wire protocol of UciSession, what the handler must  *)
(* HOLD after every command.                                               *)
(*                                                                         *)
(*   epos   the position the engine is on: <<g, k>> = game g played for k  *)
(*          plies from its start (<<0, 0>> = the initial position).        *)
(*          position sets it to exactly what the command says - whatever   *)
(*          was set before, whatever games, searches, ucinewgame or        *)
(*          options came in between; every other command leaves it alone,  *)
(*          except ucinewgame, which puts the engine on the initial        *)
(*          position.                                                      *)
(*                                                                         *)
(* Games are abstract here (game 2 shares its first plies with game 1,     *)
(* game 3 starts from a FEN); the orchestrator binds them to real games    *)
(* taken from TLC walks of ChessGame, whose states give the expected FEN   *)
(* of every <<g, k>>.  This module is used as a GENERATOR of sessions (TLC *)
(* simulation): a GUI that is protocol-valid and scriptable - it sends     *)
(* nothing while a finite search is unanswered - mixing position commands  *)
(* that extend, shorten, repeat and replace the previous one with every    *)
(* kind of go, stop, ponderhit, isready, ucinewgame and setoption.  The    *)
(* real handler runs the session; after every step its position (verif     *)
(* accessor) must be the FEN of epos, and the exchanged lines are          *)
(* validated against UciSession as before.                                 *)
(***************************************************************************)
EXTENDS UciSession

VARIABLES epos, act

hvars == <<vars, epos, act>>

GameLen == <<6, 4, 5>>
Games == 1..3
GoKinds == {"depth", "nodes", "movetime", "clock", "searchmoves", "inf", "infdepth", "ponderclock", "ponderdepth"}
ModeOf(kind) == IF kind \in {"inf", "infdepth"} THEN "inf" ELSE IF kind \in {"ponderclock", "ponderdepth"} THEN "ponder" ELSE "finite"
Options == {"Use_Hash", "Use_PVS", "Eval_Lazy", "Use_Killer"}

HInit == Init /\ epos = <<0, 0>> /\ act = "init"

Log(c, a) == act' = ToJson([c |-> c, a |-> a, g |-> epos'[1], k |-> epos'[2]])

HGui ==
    \/ \E g \in Games : \E k \in 0..GameLen[g] :
          GuiIdleCmd /\ epos' = <<g, k>> /\ Log("position", <<g, k>>)
    \/ GuiIdleCmd /\ epos' = <<0, 0>> /\ Log("ucinewgame", "")
    \/ \E o \in Options, v \in BOOLEAN : GuiIdleCmd /\ UNCHANGED epos /\ Log("setoption", <<o, v>>)
    \/ \E kind \in GoKinds : GuiGo(ModeOf(kind)) /\ UNCHANGED epos /\ Log("go", kind)
    \/ pend \in {"inf", "ponder"} /\ ~stopped /\ GuiStop /\ UNCHANGED epos /\ Log("stop", "")
    \/ pend = "ponder" /\ ~stopped /\ ~hit /\ GuiPonderHit /\ UNCHANGED epos /\ Log("ponderhit", "")
    \/ pend # "finite" /\ nready = 0 /\ GuiIsReady /\ UNCHANGED epos /\ Log("isready", "")

HEng ==
    \/ EngBestmove /\ UNCHANGED epos /\ Log("bestmove", "")
    \/ EngReadyOk /\ UNCHANGED epos /\ Log("readyok", "")

\* a scriptable session: an isready is answered before anything else is sent, a finite go is awaited at once,
\* and a stop / ponderhit is awaited before the next command
MustWait == nready > 0 \/ pend = "finite" \/ (pend # "none" /\ (stopped \/ hit))
HNext == /\ nlines < MaxLines /\ UNCHANGED l
         /\ IF MustWait THEN HEng ELSE HGui
HSpec == HInit /\ [][HNext]_hvars

HSane == Sane /\ epos[1] \in 0..3 /\ (epos[1] # 0 => epos[2] \in 0..GameLen[epos[1]])
=============================================================================
