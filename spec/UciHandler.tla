------------------------------- MODULE UciHandler -------------------------------
(***************************************************************************)
(* The state behind a UCI session (property C12, position / new-game       *)
(* clauses; also the "still holds the last validly set position" clause of *)
(* C16): on top of the wire protocol of UciSession, what the handler must  *)
(* HOLD after every command.                                               *)
(*                                                                         *)
(*   epos   the position the engine is on: <<g, k>> = game g played for k  *)
(*          plies from its start (<<0, 0>> = the initial position).        *)
(*          position sets it to exactly what the command says - whatever   *)
(*          was set before, whatever games, searches, ucinewgame or        *)
(*          options came in between; every other command leaves it alone,  *)
(*          except ucinewgame, which puts the engine on the initial        *)
(*          position.                                                      *)
(*                                                                         *)
(* Games are abstract here (game 2 shares its first plies with game 1,     *)
(* game 3 starts from a FEN); the orchestrator binds them to real games    *)
(* taken from TLC walks of ChessGame, whose states give the expected FEN   *)
(* of every <<g, k>>.  This module is used as a GENERATOR of sessions (TLC *)
(* simulation): a GUI that is protocol-valid and scriptable - it sends     *)
(* nothing while a finite search is unanswered - mixing position commands  *)
(* that extend, shorten, repeat and replace the previous one with every    *)
(* kind of go, stop, ponderhit, isready, ucinewgame and setoption.  The    *)
(* real handler runs the session; after every step its position (verif     *)
(* accessor) must be the FEN of epos, and the exchanged lines are          *)
(* validated against UciSession as before.                                 *)
(***************************************************************************)
EXTENDS UciSession

CONSTANT SessOpts   \* the options this batch of sessions plays with (a few per TLC run keeps the commands of a session balanced)

VARIABLES epos,    \* the position the engine must hold
          opts,    \* option -> "default" (never set in this session) | "true" | "false": what the configuration must show
          act

hvars == <<vars, epos, opts, act>>

GameLen == <<6, 4, 5>>
Games == 1..3
GoKinds == {"depth", "nodes", "movetime", "clock", "searchmoves", "inf", "infdepth", "ponderclock", "ponderdepth"}
ModeOf(kind) == IF kind \in {"inf", "infdepth"} THEN "inf" ELSE IF kind \in {"ponderclock", "ponderdepth"} THEN "ponder" ELSE "finite"
\* the check options a session plays with (every option of OptionField that leaves the searches of a session short and
\* needs no file: the book switch and the two experimental root-search variants are covered by the one-shot option check)
Options == SessOpts
ASSUME SessOpts \subseteq DOMAIN OptionField \ {"Hash", "Use_Book", "Use_ASP", "Use_MTDf"}

HInit == Init /\ epos = <<0, 0>> /\ opts = [o \in Options |-> "default"] /\ act = "init"

Log(c, a) == act' = ToJson([c |-> c, a |-> a, g |-> epos'[1], k |-> epos'[2]])

HGui ==
    \/ \E g \in Games : \E k \in 0..GameLen[g] :
          GuiIdleCmd /\ epos' = <<g, k>> /\ UNCHANGED opts /\ Log("position", <<g, k>>)
    \/ GuiIdleCmd /\ epos' = <<0, 0>> /\ UNCHANGED opts /\ Log("ucinewgame", "")
    \* setoption changes exactly the named setting; the configuration print-out must show every option at the value it was
    \* last set to in this session (and the others where they were at the first print-out), whatever happened in between
    \/ \E o \in Options, v \in {"true", "false"} :
          GuiIdleCmd /\ UNCHANGED epos /\ opts' = [opts EXCEPT ![o] = v] /\ Log("setoption", <<o, v>>)
    \/ GuiIdleCmd /\ UNCHANGED <<epos, opts>> /\ Log("printconfig", opts)
    \/ \E kind \in GoKinds : GuiGo(ModeOf(kind)) /\ UNCHANGED <<epos, opts>> /\ Log("go", kind)
    \/ pend \in {"inf", "ponder"} /\ ~stopped /\ GuiStop /\ UNCHANGED <<epos, opts>> /\ Log("stop", "")
    \/ pend = "ponder" /\ ~stopped /\ ~hit /\ GuiPonderHit /\ UNCHANGED <<epos, opts>> /\ Log("ponderhit", "")
    \/ pend # "finite" /\ nready = 0 /\ GuiIsReady /\ UNCHANGED <<epos, opts>> /\ Log("isready", "")

HEng ==
    \/ EngBestmove /\ UNCHANGED <<epos, opts>> /\ Log("bestmove", "")
    \/ EngReadyOk /\ UNCHANGED <<epos, opts>> /\ Log("readyok", "")

\* a scriptable session: an isready is answered before anything else is sent, a finite go is awaited at once,
\* and a stop / ponderhit is awaited before the next command
MustWait == nready > 0 \/ pend = "finite" \/ (pend # "none" /\ (stopped \/ hit))
HNext == /\ nlines < MaxLines /\ UNCHANGED l
         /\ IF MustWait THEN HEng ELSE HGui
HSpec == HInit /\ [][HNext]_hvars

HSane == Sane /\ epos[1] \in 0..3 /\ (epos[1] # 0 => epos[2] \in 0..GameLen[epos[1]])
=============================================================================
