-------------------------------- MODULE TTTrace --------------------------------
(***************************************************************************)
(* Trace validation for TT.tla: a recorded history of operations on the    *)
(* REAL transposition table (ndjson, one event per public call, with the   *)
(* call's reply and the table's entry count) must be a behaviour of TT.    *)
(* Every trace action is the corresponding TT action conjoined with the    *)
(* logged reply; many histories are concatenated with Reset events.        *)
(***************************************************************************)
EXTENDS TT

CONSTANT TraceFile
VARIABLE l

Trace == ndJsonDeserialize(TraceFile)
tvars == <<slot, count, cap, lastPut, hist, sel, rng, l>>

TInit == Init /\ l = 1

Ev == Trace[l]
IsEv(e) == l <= Len(Trace) /\ Ev.ev = e /\ l' = l + 1

\* the reply of a lookup, as logged: hit flag and the entry's fields (after the operation)
ReplyOK(i, tag) ==
    LET e == IF cap' # 0 /\ slot'[i] # Empty /\ slot'[i].tag = tag THEN slot'[i] ELSE Empty IN
    /\ Ev.hit = (e # Empty)
    /\ e # Empty => /\ e.mv = Ev.gmv /\ e.d = Ev.gd /\ e.v = Ev.gv /\ e.ty = Ev.gty /\ e.age = Ev.gage

TReset == /\ IsEv("Reset")
          /\ slot' = [i \in Slots |-> Empty] /\ count' = 0 /\ cap' = NSlots
          /\ lastPut' = [k \in Keys |-> None] /\ hist' = <<>>
          /\ UNCHANGED <<sel, rng>>
TPut == IsEv("Put") /\ Put(Ev.i, Ev.tag, Ev.mv, Ev.d, Ev.v, Ev.ty) /\ count' = Ev.len
TProbe == IsEv("Probe") /\ Probe(Ev.i, Ev.tag) /\ ReplyOK(Ev.i, Ev.tag) /\ count' = Ev.len
TGet == IsEv("Get") /\ Get(Ev.i, Ev.tag) /\ ReplyOK(Ev.i, Ev.tag) /\ count' = Ev.len
TAge == IsEv("Age") /\ AgeEntries /\ count' = Ev.len
TClear == IsEv("Clear") /\ Clear /\ count' = Ev.len
TResize == IsEv("Resize") /\ Resize(Ev.c) /\ count' = Ev.len

TNext == TReset \/ TPut \/ TProbe \/ TGet \/ TAge \/ TClear \/ TResize
TSpec == TInit /\ [][TNext]_tvars

\* the whole trace has been consumed (one state per line plus the initial state)
TraceAccepted == TLCGet("stats").diameter - 1 = Len(Trace)

\* where validation stopped (printed when the trace is rejected)
Progress == PrintT(<<"TRACE-PROGRESS", l>>)
=============================================================================
