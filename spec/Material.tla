------------------------------- MODULE Material -------------------------------
(***************************************************************************)
(* Enumerates every material configuration with at most three non-king     *)
(* pieces per side over {pawn, knight, light bishop, dark bishop, rook,    *)
(* queen} (84 multisets per side, 7,056 pairs), places it on fixed squares *)
(* that give a legal position for either side to move, and classifies it   *)
(* with ChessRules!MaterialClass.  One state per configuration and side to *)
(* move; each prints the board and the three-valued expectation for the    *)
(* engine's insufficient-material query (property C10).                    *)
(***************************************************************************)
EXTENDS ChessRules, TLC, Json

VARIABLES wms, bms, stm, board

KindSet == {"P", "N", "BL", "BD", "R", "Q"}
KindPiece(k) == IF k = "P" THEN PAWN ELSE IF k = "N" THEN KNIGHT
                ELSE IF k \in {"BL", "BD"} THEN BISHOP ELSE IF k = "R" THEN ROOK ELSE QUEEN

\* placement squares for White (Black uses the rank-mirrored squares)
Slots == [P  |-> <<8, 9, 10>>,      \* a2 b2 c2
          N  |-> <<7, 15, 14>>,     \* h1 h2 g2
          BL |-> <<5, 23, 30>>,     \* f1 h3 g4  (light squares)
          BD |-> <<2, 16, 25>>,     \* c1 a3 b4  (dark squares)
          R  |-> <<0, 1, 24>>,      \* a1 b1 a4
          Q  |-> <<3, 11, 18>>]     \* d1 d2 c3

Total(f) == f["P"] + f["N"] + f["BL"] + f["BD"] + f["R"] + f["Q"]
Multisets == {f \in [KindSet -> 0..3] : Total(f) <= 3}

Flip(s) == SqOf(FileOf(s), 7 - RankOf(s))

WhiteSquares(f) == UNION {{<<Slots[k][i], KindPiece(k)>> : i \in 1..f[k]} : k \in KindSet}

BoardOf(fw, fb) ==
    LET ws == WhiteSquares(fw)
        bs == {<<Flip(x[1]), x[2]>> : x \in WhiteSquares(fb)}
        wsq == {x[1] : x \in ws}
        bsq == {x[1] : x \in bs}
    IN [s \in Squares |->
        IF s = 4 THEN Piece(WHITE, KING)
        ELSE IF s = 60 THEN Piece(BLACK, KING)
        ELSE IF s \in wsq THEN Piece(WHITE, (CHOOSE x \in ws : x[1] = s)[2])
        ELSE IF s \in bsq THEN Piece(BLACK, (CHOOSE x \in bs : x[1] = s)[2])
        ELSE Empty]

PosOf == [board |-> board, stm |-> stm, cr |-> {}, ep |-> -1, hmc |-> 0, fmn |-> 1]

Init == wms \in Multisets /\ bms \in Multisets /\ stm \in Colors /\ board = BoardOf(wms, bms)
Next == UNCHANGED <<wms, bms, stm, board>>

\* the placements are legal positions, and bishops stand on squares of the announced colour
Legality == /\ WellFormed(PosOf)
            /\ \A i \in 1..3 : IsLight(Slots["BL"][i]) /\ ~IsLight(Slots["BD"][i])
            /\ \A i \in 1..3 : ~IsLight(Flip(Slots["BL"][i]))    \* mirrored squares change colour

\* sanity of the classification itself
ClassSane ==
    LET b == board IN
    /\ (Total(wms) = 0 /\ Total(bms) = 0) => MaterialClass(b) = "dead"
    /\ (wms["P"] + wms["R"] + wms["Q"] + bms["P"] + bms["R"] + bms["Q"] > 0) => MaterialClass(b) = "mating"
    /\ (Total(bms) = 0 /\ wms["N"] = 1 /\ wms["BL"] = 1) => MaterialClass(b) = "mating"
    /\ (Total(bms) = 0 /\ wms["BL"] = 2 /\ Total(wms) = 2) => MaterialClass(b) = "free"

Obs == PrintT(<<"OBS", ToJson([board |-> [i \in 1..64 |-> PosOf.board[i - 1]], stm |-> stm,
                               cr |-> {}, ep |-> -1, hmc |-> 0, fmn |-> 1,
                               mat |-> MaterialClass(PosOf.board)])>>)
=============================================================================
