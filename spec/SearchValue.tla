------------------------------ MODULE SearchValue ------------------------------
(***************************************************************************)
(* The exact minimax value of a depth-d game tree under the engine's own   *)
(* leaf evaluation and terminal scores (property C06).                     *)
(*                                                                         *)
(* The game tree and the scoring rules come from ChessRules; only the leaf *)
(* numbers come from the engine's evaluator (supplied per item as a JSON   *)
(* tree keyed by move, with the leaf values at depth d).  The rules, in    *)
(* the engine's order of tests:                                            *)
(*   after a move: the position occurred twice before or the half-move     *)
(*                 clock reached 100          => 0                         *)
(*   remaining depth 0                        => leaf value                *)
(*   no legal move: in check => -Mate + ply, else 0                        *)
(*   otherwise the maximum over the legal moves of the negated child value *)
(***************************************************************************)
EXTENDS ChessRules, TLC, Json

CONSTANTS ItemsFile, Chunks

VARIABLES phase, chunk, item

Items == ndJsonDeserialize(ItemsFile)
N == Len(Items)
Mate == 10000

PosOf(r) == [board |-> [s \in Squares |-> r.board[s + 1]],
             stm   |-> r.stm,
             cr    |-> {r.cr[k] : k \in DOMAIN r.cr},
             ep    |-> r.ep,
             hmc   |-> r.hmc,
             fmn   |-> r.fmn]

SetMax(S) == CHOOSE x \in S : \A y \in S : y <= x

RECURSIVE MM(_, _, _, _, _), ChildVal(_, _, _, _, _, _)
\* value of pos for the side to move; node = JSON subtree of leaf values below pos
MM(pos, hist, node, d, ply) ==
    IF d = 0 THEN node
    ELSE LET L == Legal(pos) IN
         IF L = {} THEN (IF InCheck(pos) THEN -Mate + ply ELSE 0)
         ELSE SetMax({ChildVal(pos, hist, node, d, ply, m) : m \in L})

\* value of move m for the mover at pos
ChildVal(pos, hist, node, d, ply, m) ==
    LET child == Apply(pos, m)
        h2 == Append(hist, Ident(pos))
    IN IF RepCount(h2, child) >= 2 \/ child.hmc >= 100 THEN 0
       ELSE -MM(child, h2, node[ToString(m)], d - 1, ply + 1)

Answer(i) ==
    LET r == Items[i]
        pos == PosOf(r.pos)
        L == Legal(pos)
        cv == [m \in L |-> ChildVal(pos, <<>>, r.tree, r.d, 0, m)]
        best == SetMax({cv[m] : m \in L})
    IN [id |-> r.id, d |-> r.d, value |-> best, nLegal |-> Cardinality(L),
        bestMoves |-> {m \in L : cv[m] = best},
        children |-> {<<m, cv[m]>> : m \in L}]

Init == phase = 0 /\ chunk = 0 /\ item = 0
Fan == phase = 0 /\ phase' = 1 /\ item' = 0 /\ \E c \in 1..Chunks : chunk' = c
Eval == phase = 1 /\ phase' = 2 /\ UNCHANGED chunk /\ \E i \in 1..N : i % Chunks = chunk % Chunks /\ item' = i
Next == Fan \/ Eval

Out == phase # 2 \/ PrintT(<<"MMV", ToJson(Answer(item))>>)
=============================================================================
