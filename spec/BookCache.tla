-------------------------------- MODULE BookCache --------------------------------
(***************************************************************************)
(* Initialisation of the opening book with its cache file (property C20).  *)
(*                                                                         *)
(* file   state of the cache file: "missing" | "empty" | "prefix" (a crash  *)
(*        while it was written) | "garbage" (otherwise undecodable) |      *)
(*        "intact"                                                         *)
(* lock   the package-level book mutex                                     *)
(* book   "none" | "source" (built from the source file) | "cache"         *)
(*        (loaded from an intact cache: equal to the source book) |        *)
(*        "partial" (anything else)                                        *)
(* The process performs Rounds initialisations in a row (a new Book value  *)
(* each time, as the engine does when the book option is toggled), each:   *)
(*   load:   open the cache (missing -> rebuild); lock; decode; on success *)
(*           unlock and use it; on a decode error the ORIGINAL code returns*)
(*           with the mutex still held (FixUnlock = FALSE)                 *)
(*   build:  every line takes the mutex to add its moves                   *)
(*   save:   lock, write the cache (the file becomes intact), unlock       *)
(* Properties: every initialisation terminates (no state in which the      *)
(* process waits for a mutex nobody will release) and ends with the book   *)
(* of the source file.                                                     *)
(***************************************************************************)
EXTENDS Integers, TLC

CONSTANTS Rounds, FixUnlock

VARIABLES file, lock, book, pc, round

vars == <<file, lock, book, pc, round>>

FileStates == {"missing", "empty", "prefix", "garbage", "intact"}

Init == /\ file \in FileStates /\ lock = FALSE /\ book = "none" /\ pc = "open" /\ round = 1

Open ==      \* os.Open of the cache file
    /\ pc = "open"
    /\ pc' = IF file = "missing" THEN "build" ELSE "lockload"
    /\ UNCHANGED <<file, lock, book, round>>

LockLoad ==  \* bookLock.Lock() before decoding
    /\ pc = "lockload" /\ ~lock
    /\ lock' = TRUE /\ pc' = "decode"
    /\ UNCHANGED <<file, book, round>>

Decode ==    \* gob decode: succeeds only for an intact file
    /\ pc = "decode"
    /\ IF file = "intact"
       THEN /\ book' = "cache" /\ lock' = FALSE /\ pc' = "done"
       ELSE /\ book' = "partial"                      \* the decoder may have filled in something
            /\ lock' = IF FixUnlock THEN FALSE ELSE lock
            /\ pc' = "build"
    /\ UNCHANGED <<file, round>>

Build ==     \* read the source, reset the map, process every line under the mutex
    /\ pc = "build" /\ ~lock
    /\ book' = "source" /\ pc' = "save"
    /\ UNCHANGED <<file, lock, round>>

Save ==      \* lock, encode, unlock
    /\ pc = "save" /\ ~lock
    /\ file' = "intact" /\ pc' = "done"
    /\ UNCHANGED <<lock, book, round>>

NextRound == \* the next initialisation in the same process starts with a new, empty Book value
    /\ pc = "done" /\ round < Rounds
    /\ round' = round + 1 /\ pc' = "open" /\ book' = "none"
    /\ UNCHANGED <<file, lock>>

Next == Open \/ LockLoad \/ Decode \/ Build \/ Save \/ NextRound
Spec == Init /\ [][Next]_vars /\ WF_vars(Next)

TypeOK == file \in FileStates /\ lock \in BOOLEAN /\ book \in {"none", "source", "cache", "partial"}

\* the process never waits for the mutex while nobody can release it (single process: held = stuck)
NoHang == ~(pc \in {"lockload", "build", "save"} /\ lock)
\* a finished initialisation yields the book of the source file
ResultIsSourceBook == pc = "done" => book \in {"source", "cache"}
\* and leaves an intact cache behind whenever it had to rebuild
CacheRepaired == (pc = "done" /\ book = "source") => file = "intact"
Terminates == <>(pc = "done" /\ round = Rounds)
=============================================================================
