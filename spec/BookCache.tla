-------------------------------- MODULE BookCache --------------------------------
(***************************************************************************)
(* Initialisation of the opening book with its cache file (property C20).  *)
(*                                                                         *)
(* file   state of the cache file: "missing" | "empty" | "prefix" (a crash  *)
(*        while it was written) | "garbage" (otherwise undecodable) |      *)
(*        "intact"                                                         *)
(* lock   the package-level book mutex                                     *)
(* book   "none" | "source" (built from the source file) | "cache"         *)
(*        (loaded from an intact cache: equal to the source book) |        *)
(*        "partial" (anything else)                                        *)
(* root   the Book object knows the key of its root entry (set by a        *)
(*        successful load and by a rebuild, zeroed by Reset)               *)
(* The process performs Rounds initialisations in a row - on a new Book    *)
(* value (as the engine does when the book option is toggled) or on the    *)
(* same object after Reset() - and between two initialisations the file    *)
(* may get into any state (Damage: another process, a crash).  Each        *)
(* initialisation:                                                         *)
(*   load:   open the cache (missing -> rebuild); lock; decode; on success *)
(*           unlock and use it; on a decode error the ORIGINAL code returns*)
(*           with the mutex still held (FixUnlock = FALSE)                 *)
(*   build:  every line takes the mutex to add its moves                   *)
(*   save:   lock, write the cache (the file becomes intact), unlock       *)
(* Properties: every initialisation terminates (no state in which the      *)
(* process waits for a mutex nobody will release) and ends with the book   *)
(* of the source file.                                                     *)
(***************************************************************************)
EXTENDS Integers, TLC

CONSTANTS Rounds, FixUnlock

VARIABLES file, lock, book, pc, round, root

vars == <<file, lock, book, pc, round, root>>

FileStates == {"missing", "empty", "prefix", "garbage", "intact"}

Init == /\ file \in FileStates /\ lock = FALSE /\ book = "none" /\ pc = "open" /\ round = 1 /\ root = FALSE

Open ==      \* os.Open of the cache file
    /\ pc = "open"
    /\ pc' = IF file = "missing" THEN "build" ELSE "lockload"
    /\ UNCHANGED <<file, lock, book, round, root>>

LockLoad ==  \* bookLock.Lock() before decoding
    /\ pc = "lockload" /\ ~lock
    /\ lock' = TRUE /\ pc' = "decode"
    /\ UNCHANGED <<file, book, round, root>>

Decode ==    \* gob decode: succeeds only for an intact file
    /\ pc = "decode"
    /\ IF file = "intact"
       THEN /\ book' = "cache" /\ lock' = FALSE /\ pc' = "done" /\ root' = TRUE
       ELSE /\ book' = "partial"                      \* the decoder may have filled in something
            /\ lock' = IF FixUnlock THEN FALSE ELSE lock
            /\ pc' = "build" /\ UNCHANGED root
    /\ UNCHANGED <<file, round>>

Build ==     \* read the source, make a new map with the root entry (its key is computed HERE, whatever the object knew
             \* before), process every line under the mutex
    /\ pc = "build" /\ ~lock
    /\ book' = "source" /\ pc' = "save" /\ root' = TRUE
    /\ UNCHANGED <<file, lock, round>>

Save ==      \* lock, encode, unlock
    /\ pc = "save" /\ ~lock
    /\ file' = "intact" /\ pc' = "done"
    /\ UNCHANGED <<lock, book, round, root>>

NextRound == \* the next initialisation in the same process: a new, empty Book value - or the same object after Reset()
             \* (either way the book is empty and the object does not know its root key any more)
    /\ pc = "done" /\ round < Rounds
    /\ round' = round + 1 /\ pc' = "open" /\ book' = "none" /\ root' = FALSE
    /\ UNCHANGED <<file, lock>>

Damage ==    \* between two initialisations the cache file may get into any state
    /\ pc = "done" /\ round < Rounds
    /\ file' \in FileStates
    /\ UNCHANGED <<lock, book, pc, round, root>>

Next == Open \/ LockLoad \/ Decode \/ Build \/ Save \/ NextRound \/ Damage
Spec == Init /\ [][Next]_vars /\ WF_vars(Next)

TypeOK == file \in FileStates /\ lock \in BOOLEAN /\ book \in {"none", "source", "cache", "partial"}

\* the process never waits for the mutex while nobody can release it (single process: held = stuck)
NoHang == ~(pc \in {"lockload", "build", "save"} /\ lock)
\* a finished initialisation yields the book of the source file
ResultIsSourceBook == pc = "done" => (book \in {"source", "cache"} /\ root)
\* and leaves an intact cache behind whenever it had to rebuild
CacheRepaired == [][(pc = "save" /\ pc' = "done") => file' = "intact"]_vars
\* (Damage may be taken any number of times: termination is checked for the initialisations themselves)
Terminates == []<>(pc = "done")
=============================================================================
