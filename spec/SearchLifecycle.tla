---------------------------- MODULE SearchLifecycle ----------------------------
(***************************************************************************)
(* The search lifecycle of the engine (properties C12, C14): one           *)
(* controller thread (the UCI loop) driving start / stop / wait /          *)
(* is-searching / ponderhit, one goroutine per started search, timer       *)
(* goroutines, and a clock.  One action per statement that touches shared  *)
(* state; the labels are the hook points of internal/search/search.go      *)
(* (DESIGN.md Appendix A) so that recorded hook events can be validated    *)
(* against this module (SearchLifecycleTrace) and TLC behaviours can be    *)
(* replayed through the hooks.                                             *)
(*                                                                         *)
(* Shared state of the code: the init semaphore, the running semaphore     *)
(* (golang.org/x/sync semaphore: Release hands over to a queued waiter,    *)
(* TryAcquire fails while a waiter is queued), stopFlag, timeLimit, the    *)
(* shared search-limits pointer.                                           *)
(*                                                                         *)
(* The four Fix* constants select the behaviour of the code before (FALSE) *)
(* and after (TRUE) the corresponding repair, so that the counterexamples  *)
(* of the original code stay reproducible in the model.                    *)
(***************************************************************************)
EXTENDS Integers, Sequences, FiniteSets, TLC

CONSTANTS MaxSearches,   \* number of StartSearch calls the controller may issue
          MaxCalls,      \* total number of controller calls
          MaxClock,      \* clock ticks
          TL,            \* time limit of a time-controlled search, in ticks
          Modes,         \* subset of {"depth","time","inf","ponder"}
          FixReject,     \* a rejected start releases the init semaphore
          FixLimits,     \* the search goroutine publishes / reads its own limits
          FixTimer,      \* a timer only acts for the search it was started for
          FixToken,      \* ... and learns which search that is from its spawner, before the goroutine runs
          FixTail        \* a start that meets a search which already has its result waits for it

VARIABLES
    cpc,        \* controller: <<call, step>> or <<"idle">>
    ncalls, nstarts,
    initSem,    \* 0 free, 1 held
    runHolder,  \* 0 free, else id of the search goroutine holding the running semaphore
    runWaiter,  \* 0 nobody | -1 the controller | id of a search goroutine blocked in Acquire (FixTail)
    stopFlag, timeLimit,
    limits,     \* mode of the shared limits pointer ("none" initially)
    spc,        \* search goroutine id -> program counter
    smode,      \* search goroutine id -> its own mode
    tpc,        \* timer id -> program counter
    towner,     \* timer id -> <<search it was started for (ghost), token it compares with gen (FixTimer)>>
    tstart,     \* timer id -> clock at start
    clock,
    gen,        \* id of the search currently owning the lifecycle (FixTimer token)
    results,    \* sequence of search ids in the order their results were sent
    \* ghost variables
    lastSetter, \* who set stopFlag to TRUE last: <<"none">> | <<"ctrl", n>> | <<"timer", t>> | <<"end", g>>
    stopSeen,   \* search id -> the lastSetter it observed when it left the search work because of the flag
    accepted,   \* set of search ids that acquired the running semaphore
    ctrlStops,  \* search id -> number of controller stop requests issued while it was the running search
    hits,       \* set of search ids that received a ponderhit
    hasResult   \* search id of the last search which stored its result (FixTail), 0 = none

vars == <<cpc, ncalls, nstarts, initSem, runHolder, runWaiter, stopFlag, timeLimit, limits, spc, smode,
          tpc, towner, tstart, clock, gen, results, lastSetter, stopSeen, accepted, ctrlStops, hits, hasResult>>

SIds == 1..MaxSearches
TIds == 1..(2 * MaxSearches)
TimeControlled(m) == m \in {"time", "ponder"}
Unlimited(m) == m \in {"inf", "ponder"}

Init ==
    /\ cpc = <<"idle">> /\ ncalls = 0 /\ nstarts = 0
    /\ initSem = 0 /\ runHolder = 0 /\ runWaiter = 0
    /\ stopFlag = FALSE /\ timeLimit = 0 /\ limits = "none"
    /\ spc = [g \in SIds |-> "unborn"] /\ smode = [g \in SIds |-> "none"]
    /\ tpc = [t \in TIds |-> "unborn"] /\ towner = [t \in TIds |-> <<0, 0>>] /\ tstart = [t \in TIds |-> 0]
    /\ clock = 0 /\ gen = 0 /\ results = <<>>
    /\ lastSetter = <<"none">> /\ stopSeen = [g \in SIds |-> <<"none">>]
    /\ accepted = {} /\ ctrlStops = [g \in SIds |-> 0] /\ hits = {} /\ hasResult = 0

\* ------------------------------------------------------------------------- helpers
FreeTimer == CHOOSE t \in TIds : tpc[t] = "unborn" /\ \A u \in TIds : (u < t => tpc[u] # "unborn")
HaveFreeTimer == \E t \in TIds : tpc[t] = "unborn"
SpawnTimer(owner) ==
    IF HaveFreeTimer
    THEN /\ tpc' = [tpc EXCEPT ![FreeTimer] = "tstart"]
         /\ towner' = [towner EXCEPT ![FreeTimer] = <<owner, gen>>]
    ELSE UNCHANGED <<tpc, towner>>

\* release of the running semaphore: handed over to a queued waiter
ReleaseRun ==
    IF runWaiter = 0 THEN runHolder' = 0 /\ UNCHANGED runWaiter
    ELSE IF runWaiter = -1 THEN runHolder' = -1 /\ runWaiter' = 0     \* -1: the controller holds it
    ELSE runHolder' = runWaiter /\ runWaiter' = 0                         \* a search goroutine queued by FixTail

Searching == runHolder # 0 \/ runWaiter # 0       \* what IsSearching() answers (TryAcquire fails)

\* ------------------------------------------------------------------------- controller
CtrlIdle == cpc = <<"idle">>

CallStart(m) ==
    /\ CtrlIdle /\ ncalls < MaxCalls /\ nstarts < MaxSearches
    /\ cpc' = <<"start", "acq1", m>>
    /\ ncalls' = ncalls + 1
    /\ UNCHANGED <<nstarts, initSem, runHolder, runWaiter, stopFlag, timeLimit, limits, spc, smode, tpc, towner, tstart,
                   clock, gen, results, lastSetter, stopSeen, accepted, ctrlStops, hits, hasResult>>

StartAcq1 ==   \* c.start.acq1
    /\ cpc[1] = "start" /\ cpc[2] = "acq1" /\ initSem = 0
    /\ initSem' = 1
    /\ cpc' = <<"start", "store", cpc[3]>>
    /\ UNCHANGED <<ncalls, nstarts, runHolder, runWaiter, stopFlag, timeLimit, limits, spc, smode, tpc, towner, tstart,
                   clock, gen, results, lastSetter, stopSeen, accepted, ctrlStops, hits, hasResult>>

StartStore ==  \* c.start.store (the repaired code publishes the limits from the search goroutine)
    /\ cpc[1] = "start" /\ cpc[2] = "store"
    /\ limits' = IF FixLimits THEN limits ELSE cpc[3]
    /\ cpc' = <<"start", "spawn", cpc[3]>>
    /\ UNCHANGED <<ncalls, nstarts, initSem, runHolder, runWaiter, stopFlag, timeLimit, spc, smode, tpc, towner, tstart,
                   clock, gen, results, lastSetter, stopSeen, accepted, ctrlStops, hits, hasResult>>

StartSpawn ==  \* c.start.spawn
    /\ cpc[1] = "start" /\ cpc[2] = "spawn"
    /\ nstarts' = nstarts + 1
    /\ spc' = [spc EXCEPT ![nstarts + 1] = "try"]
    /\ smode' = [smode EXCEPT ![nstarts + 1] = cpc[3]]
    /\ cpc' = <<"start", "acq2", cpc[3]>>
    /\ UNCHANGED <<ncalls, initSem, runHolder, runWaiter, stopFlag, timeLimit, limits, tpc, towner, tstart,
                   clock, gen, results, lastSetter, stopSeen, accepted, ctrlStops, hits, hasResult>>

StartAcq2 ==   \* c.start.acq2 - waits until the search goroutine has released the init semaphore
    /\ cpc[1] = "start" /\ cpc[2] = "acq2" /\ initSem = 0
    /\ initSem' = 1
    /\ cpc' = <<"start", "rel", cpc[3]>>
    /\ UNCHANGED <<ncalls, nstarts, runHolder, runWaiter, stopFlag, timeLimit, limits, spc, smode, tpc, towner, tstart,
                   clock, gen, results, lastSetter, stopSeen, accepted, ctrlStops, hits, hasResult>>

StartRel ==    \* c.start.rel
    /\ cpc[1] = "start" /\ cpc[2] = "rel"
    /\ initSem' = 0
    /\ cpc' = <<"idle">>
    /\ UNCHANGED <<ncalls, nstarts, runHolder, runWaiter, stopFlag, timeLimit, limits, spc, smode, tpc, towner, tstart,
                   clock, gen, results, lastSetter, stopSeen, accepted, ctrlStops, hits, hasResult>>

\* StopSearch (also NewGame): set the flag, then wait for the running semaphore
CallStop ==    \* c.stop.set
    /\ CtrlIdle /\ ncalls < MaxCalls
    /\ ncalls' = ncalls + 1
    /\ stopFlag' = TRUE
    /\ lastSetter' = <<"ctrl", ncalls + 1>>
    /\ ctrlStops' = IF runHolder \in SIds THEN [ctrlStops EXCEPT ![runHolder] = @ + 1] ELSE ctrlStops
    /\ cpc' = <<"wait", "acq">>
    /\ UNCHANGED <<nstarts, initSem, runHolder, runWaiter, timeLimit, limits, spc, smode, tpc, towner, tstart,
                   clock, gen, results, stopSeen, accepted, hits, hasResult>>

CallWait ==
    /\ CtrlIdle /\ ncalls < MaxCalls
    /\ ncalls' = ncalls + 1
    /\ cpc' = <<"wait", "acq">>
    /\ UNCHANGED <<nstarts, initSem, runHolder, runWaiter, stopFlag, timeLimit, limits, spc, smode, tpc, towner, tstart,
                   clock, gen, results, lastSetter, stopSeen, accepted, ctrlStops, hits, hasResult>>

WaitAcq ==     \* c.wait.acq - Acquire: immediately if free, else queue and be handed the semaphore
    /\ cpc = <<"wait", "acq">>
    /\ \/ /\ runHolder = 0 /\ runWaiter = 0
          /\ runHolder' = -1 /\ UNCHANGED runWaiter
          /\ cpc' = <<"wait", "rel">>
       \/ /\ runHolder \in SIds /\ runWaiter = 0
          /\ runWaiter' = -1 /\ UNCHANGED runHolder
          /\ cpc' = <<"wait", "queued">>
    /\ UNCHANGED <<ncalls, nstarts, initSem, stopFlag, timeLimit, limits, spc, smode, tpc, towner, tstart,
                   clock, gen, results, lastSetter, stopSeen, accepted, ctrlStops, hits, hasResult>>

WaitGranted == \* the release handed the semaphore to the queued controller
    /\ cpc = <<"wait", "queued">> /\ runHolder = -1
    /\ cpc' = <<"wait", "rel">>
    /\ UNCHANGED <<ncalls, nstarts, initSem, runHolder, runWaiter, stopFlag, timeLimit, limits, spc, smode, tpc, towner,
                   tstart, clock, gen, results, lastSetter, stopSeen, accepted, ctrlStops, hits, hasResult>>

WaitRel ==     \* c.wait.rel
    /\ cpc = <<"wait", "rel">>
    /\ ReleaseRun
    /\ cpc' = <<"idle">>
    /\ UNCHANGED <<ncalls, nstarts, initSem, stopFlag, timeLimit, limits, spc, smode, tpc, towner, tstart,
                   clock, gen, results, lastSetter, stopSeen, accepted, ctrlStops, hits, hasResult>>

CallPonderHit ==   \* c.ponderhit: IsSearching() and the shared limits say ponder -> start a timer
    /\ CtrlIdle /\ ncalls < MaxCalls
    /\ ncalls' = ncalls + 1
    /\ IF Searching /\ limits = "ponder"
       THEN /\ SpawnTimer(IF runHolder \in SIds THEN runHolder ELSE 0)
            /\ hits' = IF runHolder \in SIds THEN hits \cup {runHolder} ELSE hits
       ELSE UNCHANGED <<tpc, towner, hits>>
    /\ UNCHANGED <<cpc, nstarts, initSem, runHolder, runWaiter, stopFlag, timeLimit, limits, spc, smode, tstart,
                   clock, gen, results, lastSetter, stopSeen, accepted, ctrlStops, hasResult>>

CallIsSearching == \* a pure query (TryAcquire + Release)
    /\ CtrlIdle /\ ncalls < MaxCalls
    /\ ncalls' = ncalls + 1
    /\ UNCHANGED <<cpc, nstarts, initSem, runHolder, runWaiter, stopFlag, timeLimit, limits, spc, smode, tpc, towner, tstart,
                   clock, gen, results, lastSetter, stopSeen, accepted, ctrlStops, hits, hasResult>>

\* ------------------------------------------------------------------------- search goroutine
SUnch == <<cpc, ncalls, nstarts, clock>>

RunTry(g) ==   \* r.try.ok / r.try.fail (the search counter - the timers' token - is advanced with the acquisition)
    /\ spc[g] = "try"
    /\ IF runHolder = 0 /\ runWaiter = 0
       THEN /\ runHolder' = g /\ UNCHANGED <<runWaiter, initSem>>
            /\ spc' = [spc EXCEPT ![g] = "reset"]
            /\ accepted' = accepted \cup {g}
            /\ gen' = g
       ELSE IF FixTail /\ runHolder \in SIds /\ hasResult = runHolder /\ runWaiter = 0
       THEN \* the running search has its result already: wait for its last steps
            /\ runWaiter' = g /\ UNCHANGED <<runHolder, initSem, accepted, gen>>
            /\ spc' = [spc EXCEPT ![g] = "queued"]
       ELSE \* rejected: the original code returns with the init semaphore still held
            /\ spc' = [spc EXCEPT ![g] = "rejected"]
            /\ initSem' = IF FixReject THEN 0 ELSE initSem
            /\ UNCHANGED <<runHolder, runWaiter, accepted, gen>>
    /\ UNCHANGED <<SUnch, stopFlag, timeLimit, limits, smode, tpc, towner, tstart, results, lastSetter, stopSeen,
                   ctrlStops, hits, hasResult>>

RunGranted(g) ==   \* FixTail: the finishing search handed the semaphore over
    /\ spc[g] = "queued" /\ runHolder = g
    /\ spc' = [spc EXCEPT ![g] = "reset"]
    /\ accepted' = accepted \cup {g}
    /\ gen' = g
    /\ UNCHANGED <<SUnch, initSem, runHolder, runWaiter, stopFlag, timeLimit, limits, smode, tpc, towner, tstart,
                   results, lastSetter, stopSeen, ctrlStops, hits, hasResult>>

RunReset(g) ==   \* r.reset: stopFlag = false (and the limits are published here by the repaired code)
    /\ spc[g] = "reset"
    /\ stopFlag' = FALSE
    /\ limits' = IF FixLimits THEN smode[g] ELSE limits
    /\ spc' = [spc EXCEPT ![g] = "tl0"]
    /\ UNCHANGED <<SUnch, initSem, runHolder, runWaiter, timeLimit, smode, tpc, towner, tstart, gen, results, lastSetter,
                   stopSeen, accepted, ctrlStops, hits, hasResult>>

RunTl0(g) ==     \* r.tl0
    /\ spc[g] = "tl0"
    /\ timeLimit' = 0
    /\ spc' = [spc EXCEPT ![g] = "setup"]
    /\ UNCHANGED <<SUnch, initSem, runHolder, runWaiter, stopFlag, limits, smode, tpc, towner, tstart, gen, results,
                   lastSetter, stopSeen, accepted, ctrlStops, hits, hasResult>>

RunSetup(g) ==   \* r.setup: the time limit is computed from the search's own limits
    /\ spc[g] = "setup"
    /\ timeLimit' = IF TimeControlled(smode[g]) THEN TL ELSE 0
    /\ spc' = [spc EXCEPT ![g] = "timer"]
    /\ UNCHANGED <<SUnch, initSem, runHolder, runWaiter, stopFlag, limits, smode, tpc, towner, tstart, gen, results,
                   lastSetter, stopSeen, accepted, ctrlStops, hits, hasResult>>

RunTimer(g) ==   \* r.timer: time controlled and not pondering -> start the timer (reads the SHARED limits)
    /\ spc[g] = "timer"
    /\ LET m == IF FixLimits THEN smode[g] ELSE limits IN
       IF TimeControlled(m) /\ m # "ponder" THEN SpawnTimer(g) ELSE UNCHANGED <<tpc, towner>>
    /\ spc' = [spc EXCEPT ![g] = "initrel"]
    /\ UNCHANGED <<SUnch, initSem, runHolder, runWaiter, stopFlag, timeLimit, limits, smode, tstart, gen, results,
                   lastSetter, stopSeen, accepted, ctrlStops, hits, hasResult>>

RunInitRel(g) == \* r.init.rel
    /\ spc[g] = "initrel"
    /\ initSem' = 0
    /\ spc' = [spc EXCEPT ![g] = "work"]
    /\ UNCHANGED <<SUnch, runHolder, runWaiter, stopFlag, timeLimit, limits, smode, tpc, towner, tstart, gen, results,
                   lastSetter, stopSeen, accepted, ctrlStops, hits, hasResult>>

RunWork(g) ==    \* r.poll / r.done: the search sees the stop flag, or finishes on its own
    /\ spc[g] = "work"
    /\ \/ /\ stopFlag
          /\ stopSeen' = [stopSeen EXCEPT ![g] = lastSetter]
       \/ /\ ~stopFlag
          /\ UNCHANGED stopSeen
    /\ spc' = [spc EXCEPT ![g] = "done"]
    /\ UNCHANGED <<SUnch, initSem, runHolder, runWaiter, stopFlag, timeLimit, limits, smode, tpc, towner, tstart, gen,
                   results, lastSetter, accepted, ctrlStops, hits, hasResult>>

RunWait(g) ==    \* r.wait: an unlimited search that finished early waits for stop / ponderhit (reads SHARED limits)
    /\ spc[g] = "done"
    /\ LET m == IF FixLimits THEN smode[g] ELSE limits IN
       IF Unlimited(m) /\ ~stopFlag
       THEN UNCHANGED <<spc, stopSeen>>                      \* keeps waiting (5 ms sleep)
       ELSE /\ spc' = [spc EXCEPT ![g] = "endset"]
            /\ stopSeen' = IF stopFlag /\ stopSeen[g] = <<"none">>
                           THEN [stopSeen EXCEPT ![g] = lastSetter] ELSE stopSeen
    /\ UNCHANGED <<SUnch, initSem, runHolder, runWaiter, stopFlag, timeLimit, limits, smode, tpc, towner, tstart, gen,
                   results, lastSetter, accepted, ctrlStops, hits, hasResult>>

RunEndSet(g) ==  \* r.end.set (the result is stored before)
    /\ spc[g] = "endset"
    /\ stopFlag' = TRUE
    /\ lastSetter' = <<"end", g>>
    /\ hasResult' = g
    /\ spc' = [spc EXCEPT ![g] = "send"]
    /\ UNCHANGED <<SUnch, initSem, runHolder, runWaiter, timeLimit, limits, smode, tpc, towner, tstart, gen, results,
                   stopSeen, accepted, ctrlStops, hits>>

RunSend(g) ==    \* r.sent
    /\ spc[g] = "send"
    /\ results' = Append(results, g)
    /\ spc' = [spc EXCEPT ![g] = "rel"]
    /\ UNCHANGED <<SUnch, initSem, runHolder, runWaiter, stopFlag, timeLimit, limits, smode, tpc, towner, tstart, gen,
                   lastSetter, stopSeen, accepted, ctrlStops, hits, hasResult>>

RunRel(g) ==     \* r.rel
    /\ spc[g] = "rel"
    /\ ReleaseRun
    /\ spc' = [spc EXCEPT ![g] = "dead"]
    /\ UNCHANGED <<SUnch, initSem, stopFlag, timeLimit, limits, smode, tpc, towner, tstart, gen, results, lastSetter,
                   stopSeen, accepted, ctrlStops, hits, hasResult>>

\* ------------------------------------------------------------------------- timer goroutine
TUnch == <<cpc, ncalls, nstarts, initSem, runHolder, runWaiter, limits, spc, smode, clock, gen, results, stopSeen,
           accepted, ctrlStops, hits, hasResult, timeLimit>>

TimerStart(t) ==  \* t.start
    /\ tpc[t] = "tstart"
    /\ tstart' = [tstart EXCEPT ![t] = clock]
    /\ tpc' = [tpc EXCEPT ![t] = "tpoll"]
    \* without FixToken the goroutine reads the search counter itself, when it finally runs: that may be a later search
    /\ towner' = IF FixToken THEN towner ELSE [towner EXCEPT ![t] = <<@[1], gen>>]
    /\ UNCHANGED <<TUnch, stopFlag, lastSetter>>

TimerPoll(t) ==   \* t.poll: loop test - elapsed against the SHARED time limit, then the flag
    /\ tpc[t] = "tpoll"
    /\ IF clock - tstart[t] < timeLimit /\ ~stopFlag /\ (FixTimer => gen = towner[t][2])
       THEN UNCHANGED tpc                                    \* sleeps another 5 ms
       ELSE tpc' = [tpc EXCEPT ![t] = "tcheck"]
    /\ UNCHANGED <<TUnch, towner, tstart, stopFlag, lastSetter>>

TimerCheck(t) ==  \* t.exit / t.fire
    /\ tpc[t] = "tcheck"
    /\ IF stopFlag \/ (FixTimer /\ gen # towner[t][2])
       THEN UNCHANGED <<stopFlag, lastSetter>>
       ELSE stopFlag' = TRUE /\ lastSetter' = <<"timer", t>>
    /\ tpc' = [tpc EXCEPT ![t] = "dead"]
    /\ UNCHANGED <<TUnch, towner, tstart>>

Tick == /\ clock < MaxClock
        /\ clock' = clock + 1
        /\ UNCHANGED <<cpc, ncalls, nstarts, initSem, runHolder, runWaiter, stopFlag, timeLimit, limits, spc, smode, tpc,
                       towner, tstart, gen, results, lastSetter, stopSeen, accepted, ctrlStops, hits, hasResult>>

Next ==
    \/ \E m \in Modes : CallStart(m)
    \/ StartAcq1 \/ StartStore \/ StartSpawn \/ StartAcq2 \/ StartRel
    \/ CallStop \/ CallWait \/ WaitAcq \/ WaitGranted \/ WaitRel \/ CallPonderHit \/ CallIsSearching
    \/ \E g \in SIds : RunTry(g) \/ RunGranted(g) \/ RunReset(g) \/ RunTl0(g) \/ RunSetup(g) \/ RunTimer(g) \/ RunInitRel(g)
                         \/ RunWork(g) \/ RunWait(g) \/ RunEndSet(g) \/ RunSend(g) \/ RunRel(g)
    \/ \E t \in TIds : TimerStart(t) \/ TimerPoll(t) \/ TimerCheck(t)
    \/ Tick

Spec == Init /\ [][Next]_vars

\* ------------------------------------------------------------------------- properties

TypeOK ==
    /\ initSem \in {0, 1} /\ runHolder \in {-1, 0} \cup SIds
    /\ stopFlag \in BOOLEAN /\ timeLimit \in {0, TL}
    /\ clock \in 0..MaxClock

\* the controller is never blocked on a semaphore that no process will ever release
NoCtrlStuck ==
    /\ ~(/\ cpc[1] = "start" /\ cpc[2] \in {"acq1", "acq2"} /\ initSem = 1
         /\ \A g \in SIds : spc[g] \notin {"try", "queued", "reset", "tl0", "setup", "timer", "initrel"})
    /\ ~(/\ cpc = <<"wait", "queued">> /\ runHolder # -1
         /\ \A g \in SIds : spc[g] \in {"unborn", "dead", "rejected"})

\* exactly one result per accepted start and none for a rejected one; results in start order
OneResultEach ==
    /\ \A i, j \in 1..Len(results) : i # j => results[i] # results[j]
    /\ \A i \in 1..Len(results) : results[i] \in accepted
    /\ \A g \in SIds : spc[g] = "dead" => \E i \in 1..Len(results) : results[i] = g

\* a search is never ended by leftovers of an earlier search: the stop it observed was requested by the
\* controller while it was the running search, or by a timer started for it, (or it ended by itself)
OwnStopOnly ==
    \A g \in SIds :
        LET c == stopSeen[g] IN
        \/ c = <<"none">>
        \/ c[1] = "ctrl" /\ ctrlStops[g] > 0
        \/ c[1] = "timer" /\ towner[c[2]][1] = g
        \/ c[1] = "end" /\ c[2] = g

\* an infinite or ponder search sends no result before a stop, or a ponderhit followed by its own timer
NoResultBeforeStop ==
    \A i \in 1..Len(results) :
        LET g == results[i] IN
        Unlimited(smode[g]) =>
            \/ ctrlStops[g] > 0
            \/ g \in hits /\ stopSeen[g][1] = "timer" /\ towner[stopSeen[g][2]][1] = g

\* a start request issued while a search is running is rejected without blocking the controller:
\* covered by NoCtrlStuck; Rejected starts exist in the explored space (vacuity guard)
SomeRejected == \E g \in SIds : spc[g] = "rejected"

\* ... and ONLY while a search is running: a start request is rejected only when the search that holds the running semaphore has
\* not yet delivered its result (the user interface that has read "bestmove" may send the next "go" at once - the search
\* that is still cleaning up is not "running" any more), or when another start request is already waiting for that moment
RejectOnlyUnanswered ==
    [][\A g \in SIds :
          (spc[g] = "try" /\ spc'[g] = "rejected") =>
              \/ runHolder \in SIds /\ ~\E i \in 1..Len(results) : results[i] = runHolder
              \/ runWaiter # 0]_vars

\* liveness: every controller call returns (checked under weak fairness of every process)
Fairness == WF_vars(Next)
CallsReturn == []<>(cpc = <<"idle">>)
=============================================================================
