------------------------------- MODULE UciSession -------------------------------
(***************************************************************************)
(* The UCI session as seen on the wire (property C12): a protocol-valid    *)
(* user interface (GUI) and the engine exchange lines.  The engine side is *)
(* specified by what it MAY and MUST send:                                 *)
(*   - exactly one bestmove per go: a bestmove is possible only while a go *)
(*     is unanswered, and for infinite / ponder searches only after the    *)
(*     matching stop (or ponderhit);                                       *)
(*   - one readyok per isready, at any time, also while searching;         *)
(*   - at the end of a session nothing is left unanswered.                 *)
(* The GUI side states what protocol-valid means (Appendix B of DESIGN.md):*)
(* go only when the previous go has been answered and the answer has been  *)
(* read, position / setoption / ucinewgame only while no go is unanswered. *)
(*                                                                         *)
(* Configuration "mc": both sides nondeterministic - TLC explores every    *)
(* session of bounded length (sanity of the specification itself).         *)
(* Configuration "trace": the lines of a recorded real session (classified *)
(* syntactically by the orchestrator) are validated: every line must be a  *)
(* step of this specification, in order.                                   *)
(***************************************************************************)
EXTENDS Integers, Sequences, TLC, Json

CONSTANTS MaxLines, TraceFile

VARIABLES pend,     \* "none" or the mode of the unanswered go: "finite" | "inf" | "ponder"
          stopped,  \* a stop was sent for the unanswered go
          hit,      \* a ponderhit was sent for the unanswered go
          nready,   \* isready commands not yet answered
          nlines,   \* lines exchanged so far (bound for configuration "mc")
          answered, \* number of go commands answered
          asked,    \* number of go commands sent
          l         \* configuration "trace": next line of the trace

vars == <<pend, stopped, hit, nready, nlines, answered, asked, l>>

Init == pend = "none" /\ stopped = FALSE /\ hit = FALSE /\ nready = 0 /\ nlines = 0 /\ answered = 0 /\ asked = 0 /\ l = 1

Line == nlines' = nlines + 1

\* ------------------------------------------------------------------ GUI (protocol-valid)
GuiGo(mode) == /\ pend = "none"
               /\ pend' = mode /\ stopped' = FALSE /\ hit' = FALSE /\ asked' = asked + 1
               /\ Line /\ UNCHANGED <<nready, answered>>
GuiStop == /\ stopped' = (pend # "none")          \* a stop while idle has no effect
           /\ Line /\ UNCHANGED <<pend, hit, nready, answered, asked>>
GuiPonderHit == /\ hit' = (pend = "ponder")
                /\ Line /\ UNCHANGED <<pend, stopped, nready, answered, asked>>
GuiIsReady == /\ nready' = nready + 1
              /\ Line /\ UNCHANGED <<pend, stopped, hit, answered, asked>>
GuiIdleCmd == /\ pend = "none"                     \* position, setoption, ucinewgame, uci
              /\ Line /\ UNCHANGED <<pend, stopped, hit, nready, answered, asked>>

\* ------------------------------------------------------------------ engine
EngBestmove == /\ pend # "none"
               /\ pend = "finite" \/ stopped \/ hit
               /\ pend' = "none" /\ answered' = answered + 1
               /\ Line /\ UNCHANGED <<stopped, hit, nready, asked>>
EngReadyOk == /\ nready > 0 /\ nready' = nready - 1
              /\ Line /\ UNCHANGED <<pend, stopped, hit, answered, asked>>
EngOther == Line /\ UNCHANGED <<pend, stopped, hit, nready, answered, asked>>   \* id, option, uciok, info

Modes == {"finite", "inf", "ponder"}

Next == /\ nlines < MaxLines
        /\ UNCHANGED l
        /\ \/ \E m \in Modes : GuiGo(m)
           \/ GuiStop \/ GuiPonderHit \/ GuiIsReady \/ GuiIdleCmd
           \/ EngBestmove \/ EngReadyOk \/ EngOther
Spec == Init /\ [][Next]_vars

\* sanity of the specification: never more answers than questions, at most one unanswered go
Sane == /\ answered <= asked /\ asked - answered \in {0, 1}
        /\ (pend = "none") = (asked = answered)
\* ------------------------------------------------------------------ options
\* which configuration field each option of the engine controls (setoption must change exactly that
\* field of the engine's configuration print-out and no other)
OptionField ==
    [Use_Hash |-> "UseTT", Hash |-> "TTSize", Use_Book |-> "UseBook", Ponder |-> "UsePonder",
     Quiescence |-> "UseQuiescence", Use_QHash |-> "UseQSTT", Use_SEE |-> "UseSEE", Use_PromNonQuiet |-> "UsePromNonQuiet",
     Use_PVS |-> "UsePVS", Use_ASP |-> "UseAspiration", Use_MTDf |-> "UseMTDf",
     Use_IID |-> "UseIID", Use_Killer |-> "UseKiller", Use_HistCount |-> "UseHistoryCounter", Use_CounterMove |-> "UseCounterMoves",
     Use_Rfp |-> "UseRFP", Use_NullMove |-> "UseNullMove", Use_Mdp |-> "UseMDP", Use_Fp |-> "UseFP", Use_Lmr |-> "UseLmr",
     Use_Lmp |-> "UseLmp", Use_Ext |-> "UseExt", Use_ExtAddDepth |-> "UseExtAddDepth", Use_CheckExt |-> "UseCheckExt",
     Use_ThreatExt |-> "UseThreatExt", Eval_Lazy |-> "UseLazyEval", Eval_Mobility |-> "UseMobility",
     Eval_AdvPiece |-> "UseAdvancedPieceEval"]
ASSUME \A a, b \in DOMAIN OptionField : a # b => OptionField[a] # OptionField[b]
OptionsOut == PrintT(<<"OPTS", ToJson(OptionField)>>)

\* ------------------------------------------------------------------ trace validation
Trace == ndJsonDeserialize(TraceFile)
Ev == Trace[l]
Take == l <= Len(Trace) /\ l' = l + 1

TNext ==
    \/ /\ Take /\ Ev.ev = "in" /\ Ev.cmd = "go" /\ GuiGo(Ev.mode)
    \/ /\ Take /\ Ev.ev = "in" /\ Ev.cmd = "stop" /\ GuiStop
    \/ /\ Take /\ Ev.ev = "in" /\ Ev.cmd = "ponderhit" /\ GuiPonderHit
    \/ /\ Take /\ Ev.ev = "in" /\ Ev.cmd = "isready" /\ GuiIsReady
    \/ /\ Take /\ Ev.ev = "in" /\ Ev.cmd = "idle" /\ GuiIdleCmd
    \/ /\ Take /\ Ev.ev = "in" /\ Ev.cmd = "ignored" /\ EngOther     \* malformed line: must change nothing
    \/ /\ Take /\ Ev.ev = "out" /\ Ev.cmd = "bestmove" /\ EngBestmove
    \/ /\ Take /\ Ev.ev = "out" /\ Ev.cmd = "readyok" /\ EngReadyOk
    \/ /\ Take /\ Ev.ev = "out" /\ Ev.cmd = "other" /\ EngOther
    \/ /\ Take /\ Ev.ev = "end" /\ pend = "none" /\ nready = 0 /\ EngOther   \* nothing left unanswered
TSpec == Init /\ [][TNext]_vars

TraceAccepted == TLCGet("stats").diameter - 1 = Len(Trace)
=============================================================================
