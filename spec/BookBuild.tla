-------------------------------- MODULE BookBuild --------------------------------
(***************************************************************************)
(* The parallel build of the opening book (property C19): one goroutine    *)
(* per game, each adding its moves one by one.  A game is a sequence of    *)
(* steps <<parent position, move, child position>> (positions are abstract *)
(* identities here; the driver maps them to real games).  Every step is    *)
(* executed atomically under the book mutex, as is the increment of the    *)
(* root counter at the start of a game.  addToBook, as the code does it:   *)
(*   child known   -> its counter + 1                                      *)
(*   child new     -> entry with counter 1, and the move is linked from    *)
(*                    the parent (only the first game that reaches a       *)
(*                    position links it - which parent that is depends on  *)
(*                    the schedule when positions transpose).              *)
(* Checked for ALL interleavings: the set of positions and their visit     *)
(* counts equal the sequential fold of the games (SchedIndependent); every *)
(* offered move is a move of some game at that position, leads to the      *)
(* linked entry and is offered once (LinksSound).                          *)
(***************************************************************************)
EXTENDS Integers, Sequences, FiniteSets, TLC, Json

CONSTANTS Games      \* sequence of games; a game is a sequence of <<parent, move, child>>

VARIABLES pc,        \* game -> index of its next step (0 = root counter not yet incremented)
          count,     \* position -> visit counter (positions not in the book are absent: 0)
          inBook,    \* set of positions with an entry
          links,     \* position -> set of <<move, child>> offered there
          order      \* history: sequence of <<game, step>> in execution order (for replay)

vars == <<pc, count, inBook, links, order>>

G == 1..Len(Games)
Root == 0
Positions == {Root} \cup UNION {UNION {{Games[g][i][1], Games[g][i][3]} : i \in 1..Len(Games[g])} : g \in G}

Init == /\ pc = [g \in G |-> 0]
        /\ count = [p \in Positions |-> 0]
        /\ inBook = {Root}
        /\ links = [p \in Positions |-> {}]
        /\ order = <<>>

RootStep(g) ==
    /\ pc[g] = 0
    /\ count' = [count EXCEPT ![Root] = @ + 1]
    /\ pc' = [pc EXCEPT ![g] = 1]
    /\ order' = Append(order, <<g, 0>>)
    /\ UNCHANGED <<inBook, links>>

AddStep(g) ==
    /\ pc[g] \in 1..Len(Games[g])
    /\ LET st == Games[g][pc[g]]
           par == st[1]
           mv == st[2]
           ch == st[3]
       IN IF ch \in inBook
          THEN /\ count' = [count EXCEPT ![ch] = @ + 1]
               /\ UNCHANGED <<inBook, links>>
          ELSE /\ count' = [count EXCEPT ![ch] = 1]
               /\ inBook' = inBook \cup {ch}
               /\ links' = [links EXCEPT ![par] = @ \cup {<<mv, ch>>}]
    /\ pc' = [pc EXCEPT ![g] = @ + 1]
    /\ order' = Append(order, <<g, pc[g]>>)

Next == \E g \in G : RootStep(g) \/ AddStep(g)
Spec == Init /\ [][Next]_vars

Done == \A g \in G : pc[g] = Len(Games[g]) + 1

\* the sequential specification: visits of a position = number of game steps that lead to it
Visits(p) == IF p = Root THEN Len(Games)
             ELSE Cardinality({<<g, i>> \in G \X (1..10) : i <= Len(Games[g]) /\ Games[g][i][3] = p})

SchedIndependent ==
    Done => /\ inBook = Positions
            /\ \A p \in Positions : count[p] = Visits(p)

LinksSound ==
    \A p \in Positions : \A l \in links[p] :
        /\ \E g \in G : \E i \in 1..Len(Games[g]) : Games[g][i] = <<p, l[1], l[2]>>     \* a move really played there
        /\ l[2] \in inBook
        /\ \A k \in links[p] : k[1] = l[1] => k = l                                        \* offered once
\* every position except the root is linked from exactly one parent when the build is done
OneParent ==
    Done => \A p \in Positions \ {Root} :
               Cardinality({q \in Positions : \E l \in links[q] : l[2] = p}) = 1

\* final states are printed for replay: which parent got which link under which schedule
Final == ~Done \/ PrintT(<<"BOOKFINAL", ToJson([order |-> order, links |-> UNION {{<<p, l[1], l[2]>> : l \in links[p]} : p \in Positions}])>>)
\* model-checking instance: three games with a shared prefix, a transposition (position 3 is reached
\* by three move orders) and a repeated first move
MCGames == << << <<0, 1, 1>>, <<1, 2, 2>>, <<2, 3, 3>> >>,
              << <<0, 4, 4>>, <<4, 5, 5>>, <<5, 6, 3>> >>,
              << <<0, 1, 1>>, <<1, 7, 6>>, <<6, 8, 3>> >> >>
=============================================================================
