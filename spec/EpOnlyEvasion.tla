---------------------------- MODULE EpOnlyEvasion ----------------------------
(***************************************************************************)
(* Positions one move before a rare node class (property C07, in-check     *)
(* clause; also C01 / C08): after a pawn's double step the opponent is in  *)
(* check BY THAT PAWN and every legal reply is an en-passant capture of    *)
(* it.  A move generator or search that forgets the en-passant capture as  *)
(* an answer to check sees "no move, in check" there: checkmate with a     *)
(* legal move on the board.  Game trees of ordinary depth do not contain   *)
(* such nodes; this module searches for them: around a fixed core (a king  *)
(* next to its own pawn on its fifth rank, the enemy pawn still at home on *)
(* the file next to that pawn, the enemy king far away) TLC places two     *)
(* officers of the pushing side on the squares near the king, in every     *)
(* way, and prints the position BEFORE the push whenever the position      *)
(* after it is of the class.  WellFormed and Legal of ChessRules decide.   *)
(***************************************************************************)
EXTENDS ChessRules, TLC, Json

VARIABLES core, offs    \* index into Cores; set of <<square, type>> of the officers placed so far

\* <<king square, its pawn, enemy pawn home square, enemy king square, colour of the king in question>>
Sq(f, r) == SqOf(f, r)
Cores == << <<Sq(7, 4), Sq(7, 3), Sq(6, 1), Sq(0, 0), BLACK>>,     \* Kh5 ph4 / Pg2 Ka1
            <<Sq(0, 4), Sq(0, 3), Sq(1, 1), Sq(7, 0), BLACK>>,     \* Ka5 pa4 / Pb2 Kh1
            <<Sq(4, 4), Sq(2, 3), Sq(3, 1), Sq(7, 0), BLACK>>,     \* Ke5 pc4 / Pd2 (d4+ attacks e5) Kh1
            <<Sq(2, 4), Sq(4, 3), Sq(3, 1), Sq(7, 0), BLACK>>,     \* Kc5 pe4 / Pd2 (d4+ attacks c5)
            <<Sq(7, 3), Sq(7, 4), Sq(6, 6), Sq(0, 7), WHITE>>,     \* mirrored: Kh4 Ph5 / pg7 ka8
            <<Sq(3, 3), Sq(5, 4), Sq(4, 6), Sq(0, 7), WHITE>> >>   \* Kd4 Pf5 / pe7 (e5+ attacks d4)

Near(s, k) == Abs(FileOf(s) - FileOf(k)) <= 3 /\ Abs(RankOf(s) - RankOf(k)) <= 3

Parent(c, o) ==
    LET k == Cores[c][1]  p == Cores[c][2]  q == Cores[c][3]  ek == Cores[c][4]  col == Cores[c][5]
        b0 == [s \in Squares |-> IF s = k THEN Piece(col, KING) ELSE IF s = p THEN Piece(col, PAWN)
                                 ELSE IF s = q THEN Piece(Other(col), PAWN) ELSE IF s = ek THEN Piece(Other(col), KING)
                                 ELSE Empty]
        b == [s \in Squares |-> IF \E x \in o : x[1] = s THEN Piece(Other(col), (CHOOSE x \in o : x[1] = s)[2]) ELSE b0[s]]
    IN [board |-> b, stm |-> Other(col), cr |-> {}, ep |-> -1, hmc |-> 0, fmn |-> 30]

Push(c) == LET q == Cores[c][3]  col == Cores[c][5] IN q + 64 * (q + 16 * PawnDir(Other(col)))

Init == core \in 1..Len(Cores) /\ offs = {}
Next == /\ Cardinality(offs) < 2
        /\ \E s \in Squares, t \in {KNIGHT, BISHOP, ROOK, QUEEN} :
              /\ Near(s, Cores[core][1])
              /\ Parent(core, offs).board[s] = Empty
              /\ \A x \in offs : x[1] < s                 \* one order of placement
              /\ offs' = offs \cup {<<s, t>>}
        /\ UNCHANGED core

IsGoal ==
    LET P == Parent(core, offs) IN
    /\ WellFormed(P)
    /\ Push(core) \in Legal(P)
    /\ LET N == Apply(P, Push(core)) L == Legal(N) IN
         /\ InCheck(N)
         /\ L # {}
         /\ \A m \in L : KindOf(N, m) = 2

Obs == IsGoal => PrintT(<<"EPONLY", ToJson([board |-> [i \in 1..64 |-> Parent(core, offs).board[i - 1]], stm |-> Parent(core, offs).stm,
                                            push |-> Push(core)])>>)
=============================================================================
