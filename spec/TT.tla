---------------------------------- MODULE TT ----------------------------------
(***************************************************************************)
(* The transposition table (property C11).                                 *)
(*                                                                         *)
(* A key is a pair <<slot index, tag>>: keys with equal index collide by   *)
(* construction.  slot[i] is Empty or the resident entry.  One action per  *)
(* public operation of the engine's table; the replacement rule, the       *)
(* unconditional same-key update, Age := 1 on store, Age - 1 (floor 0) on  *)
(* probe and Age + 1 on ageing are modelled as the code does them.         *)
(*                                                                         *)
(* Ghost state: lastPut[k] = arguments of the most recent Put(k,...) while  *)
(* k may still be resident (None once k lost a collision or was evicted,   *)
(* when a lookup must return nothing); used to state "a lookup returns     *)
(* only what was stored for that key".                                     *)
(*                                                                         *)
(* hist / sel exist only for the generator configurations (they are left   *)
(* out of the VIEW of the exhaustive configuration).                       *)
(***************************************************************************)
EXTENDS Integers, Sequences, FiniteSets, TLC, Json

CONSTANTS NSlots,      \* number of slots of the modelled table (a power of two)
          Tags,        \* set of tags (upper key bits)
          Depths,      \* set of depths
          Vals,        \* set of values (integers; the driver maps them to engine values)
          Types,       \* set of bound types (1 exact, 2 alpha, 3 beta)
          Moves,       \* set of moves, 0 = no move
          MaxAge,      \* ageing is explored while every age is below this bound
          MaxOps,      \* bound on the length of hist (generator configurations)
          Chains,      \* number of pseudo-random chains (0 = all behaviours are explored)
          Seed         \* seed of the chains

VARIABLES slot, count, cap, lastPut, hist, sel, rng

vars == <<slot, count, cap, lastPut, hist, sel, rng>>
absView == <<slot, count, cap, lastPut>>

\* constant sets with negative members cannot be written in a cfg file: the generator
\* configuration substitutes these (all boundary depths; draw, mate and extreme values)
ChainDepths == {-1, 0, 1, 2, 127}
ChainVals == {-10000, -9990, -9872, -1, 0, 1, 55, 9872, 9990, 10000}

Empty == [tag |-> -1]
Slots == 0..(NSlots - 1)
Keys == Slots \X Tags
None == [mv |-> -1]

Init == /\ slot = [i \in Slots |-> Empty]
        /\ count = 0
        /\ cap = NSlots
        /\ lastPut = [k \in Keys |-> None]
        /\ hist = <<>>
        /\ sel \in (IF Chains = 0 THEN {0} ELSE 1..Chains)
        /\ rng = (sel * 7919 + Seed * 10473 + 17) % 65537

\* ------------------------------------------------------------------ pseudo-random chains
\* A linear congruential generator (state variable rng, seeded per chain) picks ONE operation per
\* step; the choice is made inside Next so that TLC never generates the other successors (there
\* is no fringe to print) while the operations themselves are the unrestricted actions below.
Lcg(x) == (x * 75 + 74) % 65537
RECURSIVE LcgN(_, _)
LcgN(x, n) == IF n = 0 THEN x ELSE LcgN(Lcg(x), n - 1)
Draw(k) == LcgN(rng, k)

Pick(S, k) ==   \* pseudo-random element of a finite set of integers (k-th draw of this step)
    LET n == Cardinality(S)
        j == Draw(k) % n
    IN CHOOSE x \in S : Cardinality({y \in S : y < x}) = j

Log(op, args) == hist' = Append(hist, <<op>> \o args) /\ rng' = LcgN(rng, 8)
Bounded == Len(hist) < MaxOps

\* --------------------------------------------------------------------------- operations

NewEntry(tag, mv, d, v, ty) == [tag |-> tag, mv |-> mv, d |-> d, v |-> v, ty |-> ty, age |-> 1]

Put(i, tag, mv, d, v, ty) ==
    /\ Bounded
    /\ Log("Put", <<i, tag, mv, d, v, ty>>)
    /\ IF cap = 0
       THEN UNCHANGED <<slot, count, lastPut>>                 \* a table of size 0 stores nothing
       ELSE LET rec == [mv |-> mv, d |-> d, v |-> v, ty |-> ty] IN
            IF slot[i] = Empty
            THEN /\ slot' = [slot EXCEPT ![i] = NewEntry(tag, mv, d, v, ty)]
                 /\ count' = count + 1
                 /\ lastPut' = [lastPut EXCEPT ![<<i, tag>>] = rec]
            ELSE IF slot[i].tag # tag
            THEN \* collision: the newcomer wins if deeper, or equally deep and the resident has aged
                 IF d > slot[i].d \/ (d = slot[i].d /\ slot[i].age > 1)
                 THEN /\ slot' = [slot EXCEPT ![i] = NewEntry(tag, mv, d, v, ty)]
                      /\ lastPut' = [lastPut EXCEPT ![<<i, tag>>] = rec, ![<<i, slot[i].tag>>] = None]
                      /\ count' = count
                 ELSE /\ lastPut' = [lastPut EXCEPT ![<<i, tag>>] = None]
                      /\ UNCHANGED <<slot, count>>
            ELSE \* same key: always updated
                 /\ slot' = [slot EXCEPT ![i] = NewEntry(tag, mv, d, v, ty)]
                 /\ lastPut' = [lastPut EXCEPT ![<<i, tag>>] = rec]
                 /\ count' = count
    /\ UNCHANGED <<cap, sel>>

Probe(i, tag) ==
    /\ Bounded
    /\ Log("Probe", <<i, tag>>)
    /\ slot' = IF cap # 0 /\ slot[i] # Empty /\ slot[i].tag = tag
               THEN [slot EXCEPT ![i].age = IF @ > 0 THEN @ - 1 ELSE 0]
               ELSE slot
    /\ UNCHANGED <<count, cap, lastPut, sel>>

Get(i, tag) ==
    /\ Bounded /\ Chains # 0                                  \* a pure read: no step of the abstract model
    /\ Log("Get", <<i, tag>>)
    /\ UNCHANGED <<slot, count, cap, lastPut, sel>>

AgeEntries ==
    /\ Bounded
    /\ \A i \in Slots : slot[i] # Empty => slot[i].age < MaxAge
    /\ Log("Age", <<>>)
    /\ slot' = [i \in Slots |-> IF slot[i] = Empty THEN Empty ELSE [slot[i] EXCEPT !.age = @ + 1]]
    /\ UNCHANGED <<count, cap, lastPut, sel>>

Clear ==
    /\ Bounded
    /\ Log("Clear", <<>>)
    /\ slot' = [i \in Slots |-> Empty]
    /\ count' = 0
    /\ lastPut' = [k \in Keys |-> None]
    /\ UNCHANGED <<cap, sel>>

\* Resize empties the table; c = 0 models a table of size 0, c = NSlots the normal size
Resize(c) ==
    /\ Bounded
    /\ Log("Resize", <<c>>)
    /\ cap' = c
    /\ slot' = [i \in Slots |-> Empty]
    /\ count' = 0
    /\ lastPut' = [k \in Keys |-> None]
    /\ UNCHANGED sel

NextAll == \/ \E i \in Slots, tag \in Tags, mv \in Moves, d \in Depths, v \in Vals, ty \in Types : Put(i, tag, mv, d, v, ty)
           \/ \E i \in Slots, tag \in Tags : Probe(i, tag) \/ Get(i, tag)
           \/ AgeEntries \/ Clear
           \/ \E c \in {0, NSlots} : Resize(c)

NextChain ==
    LET r == Draw(1) % 100
        i == Pick(Slots, 2)
        tag == Pick(Tags, 3)
    IN IF r < 60 THEN Put(i, tag, Pick(Moves, 4), Pick(Depths, 5), Pick(Vals, 6), Pick(Types, 7))
       ELSE IF r < 78 THEN Probe(i, tag)
       ELSE IF r < 86 THEN Get(i, tag)
       ELSE IF r < 94 THEN (AgeEntries \/ (~ENABLED AgeEntries /\ Probe(i, tag)))
       ELSE IF r < 98 THEN Clear
       ELSE Resize(IF Draw(4) % 3 = 0 THEN 0 ELSE NSlots)

Next == IF Chains = 0 THEN NextAll ELSE NextChain

Spec == Init /\ [][Next]_vars

\* --------------------------------------------------------------------------- properties

\* what a lookup for key <<i, tag>> returns
Lookup(i, tag) == IF cap # 0 /\ slot[i] # Empty /\ slot[i].tag = tag THEN slot[i] ELSE Empty

TypeOK == /\ count \in 0..NSlots
          /\ cap \in {0, NSlots}
          /\ \A i \in Slots : slot[i] = Empty \/
                (slot[i].tag \in Tags /\ slot[i].mv \in Moves /\ slot[i].d \in Depths /\ slot[i].v \in Vals
                   /\ slot[i].ty \in Types /\ slot[i].age \in 0..MaxAge)

\* a lookup returns nothing or exactly the most recent entry written for that same key
LookupIntact ==
    \A i \in Slots, tag \in Tags :
        LET e == Lookup(i, tag) IN
        /\ e # Empty => /\ lastPut[<<i, tag>>] # None
                        /\ [mv |-> e.mv, d |-> e.d, v |-> e.v, ty |-> e.ty] = lastPut[<<i, tag>>]
        /\ (e = Empty /\ cap # 0) => lastPut[<<i, tag>>] = None

\* the entry count equals the number of occupied slots
CountExact == count = Cardinality({i \in Slots : slot[i] # Empty})

\* a resident entry is evicted by a different key only if the newcomer is deeper, or equally deep
\* and the resident has aged
EvictionRule ==
    [][\A i \in Slots :
          (slot[i] # Empty /\ slot'[i] # Empty /\ slot'[i].tag # slot[i].tag) =>
              (slot'[i].d > slot[i].d \/ (slot'[i].d = slot[i].d /\ slot[i].age > 1))]_vars

\* entries disappear only through Clear / Resize or eviction
NoSilentLoss ==
    [][\A i \in Slots : (slot[i] # Empty /\ slot'[i] = Empty) => count' = 0]_vars

\* capacity law: the largest power of two of 16-byte entries fitting into mb megabytes
RECURSIVE Pow2Below(_, _)
Pow2Below(n, p) == IF 2 * p > n THEN p ELSE Pow2Below(n, 2 * p)
Capacity(mb) == IF mb = 0 THEN 0 ELSE Pow2Below(mb * 65536, 1)

\* --------------------------------------------------------------------------- observation

\* ages saturate at MaxAge in chain mode so that long chains stay inside the bounded model
SlotRec(i) == IF slot[i] = Empty THEN [tag |-> -1, mv |-> 0, d |-> 0, v |-> 0, ty |-> 0, age |-> 0] ELSE slot[i]

Obs == hist = <<>> \/
       PrintT(<<"TTOBS", ToJson([sel |-> sel, n |-> Len(hist), op |-> hist[Len(hist)],
                                 cap |-> cap, count |-> count,
                                 slots |-> [i \in 1..NSlots |-> SlotRec(i - 1)]])>>)

CapObs == PrintT(<<"TTCAP", ToJson([mb \in {1, 2, 3, 4, 5, 7, 8, 15, 16, 17, 31, 32, 33, 63, 64, 65, 100, 127, 128, 255, 256} |->
                                       Capacity(mb)])>>)
=============================================================================
