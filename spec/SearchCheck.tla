------------------------------ MODULE SearchCheck ------------------------------
(***************************************************************************)
(* Validates what real searches reported against the rules (ChessRules):   *)
(*                                                                         *)
(*  "pv"   records: a search's best move, ponder move and every principal  *)
(*         variation it reported must be behaviours of the game: each move *)
(*         is in Legal of the position reached (properties C05, C13);      *)
(*  "term" records: positions the search classified as checkmate or        *)
(*         stalemate must have no legal move, and be mate exactly when in  *)
(*         check (property C07);                                           *)
(*  "root" records: does the position have a legal move, is it in check    *)
(*         (expected answers for terminal roots).                          *)
(*                                                                         *)
(* The items are read from an ndjson file; the state machine only spreads  *)
(* their evaluation over TLC's workers (two-level fan-out) and prints one  *)
(* verdict per item.                                                       *)
(***************************************************************************)
EXTENDS ChessRules, TLC, Json

CONSTANTS ItemsFile, Chunks

VARIABLES phase, chunk, item

vars == <<phase, chunk, item>>

Items == ndJsonDeserialize(ItemsFile)
N == Len(Items)

PosOf(r) == [board |-> [s \in Squares |-> r.board[s + 1]],
             stm   |-> r.stm,
             cr    |-> {r.cr[k] : k \in DOMAIN r.cr},
             ep    |-> r.ep,
             hmc   |-> r.hmc,
             fmn   |-> r.fmn]

RECURSIVE FirstIllegal(_, _, _)
\* index of the first move of line (from index i on) that is not legal where it is played, 0 if none
FirstIllegal(pos, line, i) ==
    IF i > Len(line) THEN 0
    ELSE IF line[i] \in Legal(pos) THEN FirstIllegal(Apply(pos, line[i]), line, i + 1)
    ELSE i

Verdict(i) ==
    LET r == Items[i]
        pos == PosOf(r.pos)
    IN IF r.k = "pv"
       THEN LET L == Legal(pos)
                bestOk == r.best \in L
            IN [id |-> r.id, k |-> "pv",
                hasLegal |-> L # {},
                bestLegal |-> bestOk,
                ponderLegal |-> IF r.ponder = -1 THEN TRUE
                                ELSE bestOk /\ r.ponder \in Legal(Apply(pos, r.best)),
                badLine |-> {<<j, FirstIllegal(pos, r.lines[j], 1)>> :
                                j \in {x \in 1..Len(r.lines) : FirstIllegal(pos, r.lines[x], 1) # 0}},
                allowedOk |-> (Len(r.allowed) = 0 \/ r.best = -1 \/ \E a \in 1..Len(r.allowed) : r.allowed[a] = r.best)]
       ELSE IF r.k = "term"
       THEN [id |-> r.id, k |-> "term", noLegal |-> Legal(pos) = {}, inCheck |-> InCheck(pos)]
       ELSE [id |-> r.id, k |-> "root", hasLegal |-> Legal(pos) # {}, inCheck |-> InCheck(pos),
             nLegal |-> Cardinality(Legal(pos))]

Init == phase = 0 /\ chunk = 0 /\ item = 0

Fan == /\ phase = 0
       /\ \E c \in 1..Chunks : chunk' = c
       /\ phase' = 1
       /\ item' = 0

Eval == /\ phase = 1
        /\ \E i \in 1..N : i % Chunks = chunk % Chunks /\ item' = i
        /\ phase' = 2
        /\ UNCHANGED chunk

Next == Fan \/ Eval

Out == phase # 2 \/ PrintT(<<"CHK", ToJson(Verdict(item))>>)
=============================================================================
