----------------------------- MODULE ChessGameTrace -----------------------------
(***************************************************************************)
(* Trace validation for ChessGame: games played by the ENGINE (it chooses  *)
(* the moves from its own legal move list) are recorded ply by ply with    *)
(* the engine's view of the position after the move, its legal move list,  *)
(* its in-check answer and its repetition answers; every recorded ply must *)
(* be a Move step of the specification that leads to exactly the recorded  *)
(* state (properties C01, C02, C09, C10 in the direction code -> spec).    *)
(* Many games are concatenated with Reset events.                          *)
(***************************************************************************)
EXTENDS ChessGame

CONSTANT TraceFile
VARIABLE l

Trace == ndJsonDeserialize(TraceFile)
tvars == <<pos, hist, stack, path, kinds, root, legal, rng, l>>

PosOfRec(r) == [board |-> [s \in Squares |-> r.board[s + 1]],
                stm   |-> r.stm,
                cr    |-> {r.cr[k] : k \in DOMAIN r.cr},
                ep    |-> r.ep,
                hmc   |-> r.hmc,
                fmn   |-> r.fmn]
SeqSet(q) == {q[i] : i \in DOMAIN q}

Ev == Trace[l]

TInit == /\ l = 1 /\ root = 1 /\ rng = 0
         /\ pos = PosOfRec(Trace[1].pos) /\ legal = Legal(PosOfRec(Trace[1].pos))
         /\ hist = <<>> /\ stack = <<>> /\ path = <<>> /\ kinds = <<>>

TReset == /\ l <= Len(Trace) /\ Ev.ev = "Reset"
          /\ pos' = PosOfRec(Ev.pos)
          /\ legal' = Legal(PosOfRec(Ev.pos))
          /\ legal' = SeqSet(Ev.legal)                       \* the engine's legal list at the root
          /\ hist' = <<>> /\ stack' = <<>> /\ path' = <<>> /\ kinds' = <<>>
          /\ UNCHANGED <<root, rng>>
          /\ l' = l + 1

TMove == /\ l <= Len(Trace) /\ Ev.ev = "Move"
         /\ Move(Ev.m)                                        \* enabled only for a legal move
         /\ pos' = PosOfRec(Ev.pos)                           \* the engine's successor is the rule-defined one
         /\ legal' = SeqSet(Ev.legal)                         \* its legal move list there is Legal(pos')
         /\ InCheck(pos') = Ev.inCheck
         /\ \A n \in 1..3 : (RepCount(hist', pos') >= n) = Ev.rep[n]
         /\ l' = l + 1

\* diagnosis of a ply that is not a step: prints which part of the record disagrees (no state change)
TDiag == /\ l <= Len(Trace) /\ Ev.ev = "Move"
         /\ IF Ev.m \notin legal
            THEN PrintT(<<"TRACE-MISMATCH", l, "move-not-legal">>)
            ELSE LET p2 == Apply(pos, Ev.m)
                     h2 == Append(hist, Ident(pos))
                     okPos == p2 = PosOfRec(Ev.pos)
                     okLegal == Legal(p2) = SeqSet(Ev.legal)
                     okCheck == InCheck(p2) = Ev.inCheck
                     okRep == \A n \in 1..3 : (RepCount(h2, p2) >= n) = Ev.rep[n]
                 IN ~(okPos /\ okLegal /\ okCheck /\ okRep)
                    /\ PrintT(<<"TRACE-MISMATCH", l, IF ~okPos THEN "successor-position"
                                                    ELSE IF ~okLegal THEN "legal-move-list"
                                                    ELSE IF ~okCheck THEN "in-check" ELSE "repetition">>)
         /\ UNCHANGED tvars

TNext == TReset \/ TMove \/ TDiag
TSpec == TInit /\ [][TNext]_tvars

TraceAccepted == TLCGet("stats").diameter - 1 = Len(Trace)
=============================================================================
