------------------------------ MODULE ChessRules ------------------------------
(***************************************************************************)
(* The rules of chess as constant-level TLA+ operators.                    *)
(*                                                                         *)
(* Everything is defined from square coordinates: there are no bitboards,  *)
(* no magic numbers and no incremental state in this module.  It is the    *)
(* independent definition the engine (FrankyGo) is compared against.       *)
(*                                                                         *)
(* Squares are 0..63 with a1 = 0, b1 = 1, ..., h8 = 63.                    *)
(* Piece codes: 1..6 = K P N B R Q for White, +8 for Black, 0 = empty.     *)
(* A position is a record [board, stm, cr, ep, hmc, fmn].                  *)
(* A move is the integer from + 64*to + 4096*promo                         *)
(*   (promo: 0 none, 1 N, 2 B, 3 R, 4 Q).                                  *)
(* En passant and castling are recognised from the board, as the rules do. *)
(***************************************************************************)
EXTENDS Integers, Sequences, FiniteSets

Squares == 0..63
FileOf(s) == s % 8
RankOf(s) == s \div 8
SqOf(f, r) == 8 * r + f
OnBoard(f, r) == f >= 0 /\ f <= 7 /\ r >= 0 /\ r <= 7

Empty  == 0
KING   == 1
PAWN   == 2
KNIGHT == 3
BISHOP == 4
ROOK   == 5
QUEEN  == 6
WHITE  == 0
BLACK  == 1
Colors == {WHITE, BLACK}
Other(c) == 1 - c
Piece(c, t) == 8 * c + t
ColorOf(pc) == pc \div 8
TypeOf(pc) == pc % 8
PieceCodes == {Piece(c, t) : c \in Colors, t \in KING..QUEEN}

Abs(x) == IF x < 0 THEN -x ELSE x
Max2(a, b) == IF a > b THEN a ELSE b
Min2(a, b) == IF a < b THEN a ELSE b

-----------------------------------------------------------------------------
(* Geometry                                                                *)

\* direction index -> (file step, rank step); order N E S W NE SE SW NW
DirVec == << <<0, 1>>, <<1, 0>>, <<0, -1>>, <<-1, 0>>,
             <<1, 1>>, <<1, -1>>, <<-1, -1>>, <<-1, 1>> >>
Dirs == 1..8
Orth == {1, 2, 3, 4}
Diag == {5, 6, 7, 8}

RECURSIVE RayFrom(_, _, _, _)
RayFrom(f, r, df, dr) ==
    IF OnBoard(f + df, r + dr)
    THEN <<SqOf(f + df, r + dr)>> \o RayFrom(f + df, r + dr, df, dr)
    ELSE <<>>

\* Ray[s][d] : the squares met when leaving s in direction d, nearest first
Ray == [s \in Squares |-> [d \in Dirs |->
           RayFrom(FileOf(s), RankOf(s), DirVec[d][1], DirVec[d][2])]]

StepSet(s, vecs) ==
    {SqOf(FileOf(s) + v[1], RankOf(s) + v[2]) :
        v \in {w \in vecs : OnBoard(FileOf(s) + w[1], RankOf(s) + w[2])}}

KnightVecs == {<<1, 2>>, <<2, 1>>, <<2, -1>>, <<1, -2>>,
               <<-1, -2>>, <<-2, -1>>, <<-2, 1>>, <<-1, 2>>}
KingVecs == {<<0, 1>>, <<1, 1>>, <<1, 0>>, <<1, -1>>,
             <<0, -1>>, <<-1, -1>>, <<-1, 0>>, <<-1, 1>>}

KnightStep == [s \in Squares |-> StepSet(s, KnightVecs)]
KingStep   == [s \in Squares |-> StepSet(s, KingVecs)]

PawnDir(c) == IF c = WHITE THEN 1 ELSE -1
\* PawnAtt[c][s] : squares attacked by a pawn of colour c standing on s
PawnAtt == [c \in Colors |-> [s \in Squares |->
               StepSet(s, {<<-1, PawnDir(c)>>, <<1, PawnDir(c)>>})]]

SeqToSet(q) == {q[i] : i \in 1..Len(q)}

\* squares strictly between a and b when they share a line, else {}
Between(a, b) ==
    IF a = b THEN {}
    ELSE LET ds == {d \in Dirs : b \in SeqToSet(Ray[a][d])} IN
         IF ds = {} THEN {}
         ELSE LET d == CHOOSE x \in ds : TRUE
                  ry == Ray[a][d]
                  k == CHOOSE i \in 1..Len(ry) : ry[i] = b
              IN {ry[i] : i \in 1..(k - 1)}

ChebDist(a, b) == Max2(Abs(FileOf(a) - FileOf(b)), Abs(RankOf(a) - RankOf(b)))
\* distance to the four centre squares d4 e4 d5 e5
CenterDist(s) == Min2(Min2(ChebDist(s, 27), ChebDist(s, 28)),
                      Min2(ChebDist(s, 35), ChebDist(s, 36)))
\* a1 is a dark square
IsLight(s) == (FileOf(s) + RankOf(s)) % 2 = 1

\* Shift a set of squares one step in direction d; squares leaving the board vanish
ShiftSet(S, d) ==
    {SqOf(FileOf(s) + DirVec[d][1], RankOf(s) + DirVec[d][2]) :
        s \in {x \in S : OnBoard(FileOf(x) + DirVec[d][1], RankOf(x) + DirVec[d][2])}}

-----------------------------------------------------------------------------
(* Attacks                                                                 *)

RECURSIVE FirstPiece(_, _, _)
\* first occupied square of a ray (from index i on), or -1
FirstPiece(board, ray, i) ==
    IF i > Len(ray) THEN -1
    ELSE IF board[ray[i]] # Empty THEN ray[i]
    ELSE FirstPiece(board, ray, i + 1)

RECURSIVE Reach(_, _, _)
\* squares a slider sees along a ray: up to and including the first blocker
Reach(board, ray, i) ==
    IF i > Len(ray) THEN {}
    ELSE IF board[ray[i]] # Empty THEN {ray[i]}
    ELSE {ray[i]} \cup Reach(board, ray, i + 1)

SliderDirs(t) == IF t = BISHOP THEN Diag
                 ELSE IF t = ROOK THEN Orth
                 ELSE IF t = QUEEN THEN Dirs ELSE {}

\* squares attacked by a slider of type t on s, given the occupied set encoded in board
SlidingAttack(t, s, board) == UNION {Reach(board, Ray[s][d], 1) : d \in SliderDirs(t)}

\* pieces of colour c that attack square s (the occupant of s is irrelevant)
Attackers(board, s, c) ==
    {t \in KnightStep[s] : board[t] = Piece(c, KNIGHT)}
    \cup {t \in KingStep[s] : board[t] = Piece(c, KING)}
    \cup {t \in PawnAtt[Other(c)][s] : board[t] = Piece(c, PAWN)}
    \cup {h \in {FirstPiece(board, Ray[s][d], 1) : d \in Orth} :
             h # -1 /\ board[h] \in {Piece(c, ROOK), Piece(c, QUEEN)}}
    \cup {h \in {FirstPiece(board, Ray[s][d], 1) : d \in Diag} :
             h # -1 /\ board[h] \in {Piece(c, BISHOP), Piece(c, QUEEN)}}

\* same thing as a predicate, written so that TLC can stop at the first witness
Attacked(board, s, c) ==
    \/ \E t \in KnightStep[s] : board[t] = Piece(c, KNIGHT)
    \/ \E t \in PawnAtt[Other(c)][s] : board[t] = Piece(c, PAWN)
    \/ \E t \in KingStep[s] : board[t] = Piece(c, KING)
    \/ \E d \in Orth : LET h == FirstPiece(board, Ray[s][d], 1) IN
          h # -1 /\ (board[h] = Piece(c, ROOK) \/ board[h] = Piece(c, QUEEN))
    \/ \E d \in Diag : LET h == FirstPiece(board, Ray[s][d], 1) IN
          h # -1 /\ (board[h] = Piece(c, BISHOP) \/ board[h] = Piece(c, QUEEN))

KingSq(board, c) == CHOOSE s \in Squares : board[s] = Piece(c, KING)
InCheckBoard(board, c) == Attacked(board, KingSq(board, c), Other(c))
InCheck(pos) == InCheckBoard(pos.board, pos.stm)

-----------------------------------------------------------------------------
(* Moves                                                                   *)

Mv(f, t, p) == f + 64 * t + 4096 * p
From(m) == m % 64
To(m) == (m \div 64) % 64
Promo(m) == m \div 4096
PromoPiece(p) == p + 2            \* 1..4 -> KNIGHT..QUEEN

Own(board, s, c) == board[s] # Empty /\ ColorOf(board[s]) = c
Enemy(board, s, c) == board[s] # Empty /\ ColorOf(board[s]) # c

PromoRank(c) == IF c = WHITE THEN 7 ELSE 0
StartRank(c) == IF c = WHITE THEN 1 ELSE 6

\* a pawn move to square t from s, expanded into the four promotions on the last rank
PawnTo(s, t, c) == IF RankOf(t) = PromoRank(c)
                   THEN {Mv(s, t, p) : p \in 1..4}
                   ELSE {Mv(s, t, 0)}

PawnMoves(pos, s) ==
    LET b == pos.board
        c == pos.stm
        t1 == s + 8 * PawnDir(c)
        t2 == s + 16 * PawnDir(c)
        push == IF b[t1] = Empty THEN PawnTo(s, t1, c) ELSE {}
        dbl == IF RankOf(s) = StartRank(c) /\ b[t1] = Empty /\ b[t2] = Empty
               THEN {Mv(s, t2, 0)} ELSE {}
        caps == UNION {PawnTo(s, x, c) : x \in {y \in PawnAtt[c][s] : Enemy(b, y, c)}}
        ep == {Mv(s, x, 0) : x \in {y \in PawnAtt[c][s] : y = pos.ep}}
    IN push \cup dbl \cup caps \cup ep

StepMoves(pos, s, steps) ==
    {Mv(s, t, 0) : t \in {x \in steps : ~Own(pos.board, x, pos.stm)}}

SliderMoves(pos, s, t) ==
    {Mv(s, x, 0) : x \in {y \in SlidingAttack(t, s, pos.board) : ~Own(pos.board, y, pos.stm)}}

\* castling: <<right, king from, king to, rook from, rook to, squares that must be empty>>
CastleTab == << <<"K", 4, 6, 7, 5, {5, 6}>>,
                <<"Q", 4, 2, 0, 3, {1, 2, 3}>>,
                <<"k", 60, 62, 63, 61, {61, 62}>>,
                <<"q", 60, 58, 56, 59, {57, 58, 59}>> >>
CastleColor(i) == IF i <= 2 THEN WHITE ELSE BLACK

\* pseudo-legal castling: right present, king and rook at home, path empty
CastleMoves(pos) ==
    {Mv(CastleTab[i][2], CastleTab[i][3], 0) :
        i \in {j \in 1..4 :
                 /\ CastleColor(j) = pos.stm
                 /\ CastleTab[j][1] \in pos.cr
                 /\ pos.board[CastleTab[j][2]] = Piece(pos.stm, KING)
                 /\ pos.board[CastleTab[j][4]] = Piece(pos.stm, ROOK)
                 /\ \A x \in CastleTab[j][6] : pos.board[x] = Empty}}

PieceMoves(pos, s) ==
    LET t == TypeOf(pos.board[s]) IN
    IF t = PAWN THEN PawnMoves(pos, s)
    ELSE IF t = KNIGHT THEN StepMoves(pos, s, KnightStep[s])
    ELSE IF t = KING THEN StepMoves(pos, s, KingStep[s])
    ELSE SliderMoves(pos, s, t)

PseudoLegal(pos) ==
    UNION {PieceMoves(pos, s) : s \in {x \in Squares : Own(pos.board, x, pos.stm)}}
    \cup CastleMoves(pos)

IsCastle(pos, m) == /\ TypeOf(pos.board[From(m)]) = KING
                    /\ Abs(FileOf(From(m)) - FileOf(To(m))) = 2
IsEp(pos, m) == /\ TypeOf(pos.board[From(m)]) = PAWN
                /\ To(m) = pos.ep
                /\ FileOf(From(m)) # FileOf(To(m))
IsCapture(pos, m) == pos.board[To(m)] # Empty \/ IsEp(pos, m)
IsPawnMove(pos, m) == TypeOf(pos.board[From(m)]) = PAWN
IsDoublePush(pos, m) == IsPawnMove(pos, m) /\ Abs(RankOf(From(m)) - RankOf(To(m))) = 2

BoardAfter(pos, m) ==
    LET b == pos.board
        f == From(m)
        t == To(m)
        pc == b[f]
        c == ColorOf(pc)
    IN IF IsCastle(pos, m)
       THEN LET rf == IF t > f THEN f + 3 ELSE f - 4
                rt == IF t > f THEN f + 1 ELSE f - 1
            IN [b EXCEPT ![f] = Empty, ![t] = pc, ![rf] = Empty, ![rt] = Piece(c, ROOK)]
       ELSE IF IsEp(pos, m)
       THEN [b EXCEPT ![f] = Empty, ![t] = pc, ![t - 8 * PawnDir(c)] = Empty]
       ELSE IF Promo(m) # 0
       THEN [b EXCEPT ![f] = Empty, ![t] = Piece(c, PromoPiece(Promo(m)))]
       ELSE [b EXCEPT ![f] = Empty, ![t] = pc]

\* a pseudo-legal move is legal when it does not leave the own king attacked;
\* castling in addition neither out of check nor through an attacked square.
\* ksq is the mover's king square before the move (passed in so that it is located once).
LegalMoveK(pos, m, ksq) ==
    LET c == pos.stm
        b2 == BoardAfter(pos, m)
        k2 == IF From(m) = ksq THEN To(m) ELSE ksq
    IN /\ ~Attacked(b2, k2, Other(c))
       /\ IsCastle(pos, m) =>
            /\ ~Attacked(pos.board, From(m), Other(c))
            /\ ~Attacked(pos.board, (From(m) + To(m)) \div 2, Other(c))

LegalMove(pos, m) == LegalMoveK(pos, m, KingSq(pos.board, pos.stm))

Legal(pos) == LET ksq == KingSq(pos.board, pos.stm) IN
              {m \in PseudoLegal(pos) : LegalMoveK(pos, m, ksq)}

\* castling rights lost when a move starts or ends on square s
RightsAt(s) == IF s = 4 THEN {"K", "Q"} ELSE IF s = 7 THEN {"K"} ELSE IF s = 0 THEN {"Q"}
               ELSE IF s = 60 THEN {"k", "q"} ELSE IF s = 63 THEN {"k"}
               ELSE IF s = 56 THEN {"q"} ELSE {}

Apply(pos, m) ==
    [board |-> BoardAfter(pos, m),
     stm   |-> Other(pos.stm),
     cr    |-> pos.cr \ (RightsAt(From(m)) \cup RightsAt(To(m))),
     ep    |-> IF IsDoublePush(pos, m) THEN (From(m) + To(m)) \div 2 ELSE -1,
     hmc   |-> IF IsPawnMove(pos, m) \/ IsCapture(pos, m) THEN 0 ELSE pos.hmc + 1,
     fmn   |-> IF pos.stm = BLACK THEN pos.fmn + 1 ELSE pos.fmn]

\* a null move: only the side to move changes, the en-passant target is dropped
ApplyNull(pos) == [pos EXCEPT !.stm = Other(pos.stm), !.ep = -1,
                              !.fmn = IF pos.stm = BLACK THEN pos.fmn + 1 ELSE pos.fmn]

GivesCheck(pos, m) == InCheck(Apply(pos, m))
IsMate(pos) == InCheck(pos) /\ Legal(pos) = {}
IsStalemate(pos) == ~InCheck(pos) /\ Legal(pos) = {}

\* the piece captured by m (0 if none)
Captured(pos, m) == IF IsEp(pos, m) THEN Piece(Other(pos.stm), PAWN) ELSE pos.board[To(m)]

\* move classes of the engine's generation modes.  promNonQuiet is the engine switch that
\* counts quiet queen and knight promotions among the non-quiet moves.
IsNonQuiet(pos, m, promNonQuiet) ==
    \/ IsCapture(pos, m)
    \/ promNonQuiet /\ Promo(m) \in {1, 4}
\* generation class of a pseudo-legal move: which stage of the engine's phased generator produces it
\* (MoveGenOD.tla): 1 pawn non-quiet, 2 officer captures, 3 king captures, 4 pawn quiet, 5 castling,
\* 6 officer quiet, 7 king quiet
GenClass(pos, m, promNonQuiet) ==
    LET t == TypeOf(pos.board[From(m)])
        nq == IsNonQuiet(pos, m, promNonQuiet)
    IN IF IsCastle(pos, m) THEN 5
       ELSE IF t = PAWN THEN (IF nq THEN 1 ELSE 4)
       ELSE IF t = KING THEN (IF nq THEN 3 ELSE 7)
       ELSE (IF nq THEN 2 ELSE 6)

NonQuiet(pos, promNonQuiet) == {m \in PseudoLegal(pos) : IsNonQuiet(pos, m, promNonQuiet)}
Quiet(pos, promNonQuiet) == {m \in PseudoLegal(pos) : ~IsNonQuiet(pos, m, promNonQuiet)}


-----------------------------------------------------------------------------
(* The engine's two documented en-passant conventions, as named deviations  *)
(* from the geometric attack definition (property C09).  Both concern only  *)
(* the side to move, which is the side that may capture en passant.         *)

\* the pawn that has just made a double push (defined when pos.ep # -1)
PushedPawnSq(pos) == pos.ep - 8 * PawnDir(pos.stm)
\* pawns of the side to move that could capture it en passant
EpCapturers(pos) == IF pos.ep = -1 THEN {}
                    ELSE {t \in PawnAtt[Other(pos.stm)][pos.ep] : pos.board[t] = Piece(pos.stm, PAWN)}
\* convention 1: a pawn that can be captured en passant counts as attacked
EpConvIsAttacked(pos, s, c) ==
    pos.ep # -1 /\ c = pos.stm /\ s = PushedPawnSq(pos) /\ EpCapturers(pos) # {}
\* convention 2: on the en-passant target square that pawn is marked as well
EpConvAttacksTo(pos, s, c) ==
    IF pos.ep # -1 /\ c = pos.stm /\ s = pos.ep /\ EpCapturers(pos) # {}
    THEN {PushedPawnSq(pos)} ELSE {}

\* kind of a move as engines encode it: 0 normal, 1 promotion, 2 en passant, 3 castling
KindOf(pos, m) == IF Promo(m) # 0 THEN 1 ELSE IF IsEp(pos, m) THEN 2
                  ELSE IF IsCastle(pos, m) THEN 3 ELSE 0

-----------------------------------------------------------------------------
(* Position identity, repetition, material                                 *)

\* what "the same position" means for repetition and for hash keys
Ident(pos) == <<pos.board, pos.stm, pos.cr, pos.ep>>

\* hist: sequence of Ident values of the earlier positions of the game
RepCount(hist, pos) == Cardinality({i \in 1..Len(hist) : hist[i] = Ident(pos)})

PiecesOf(board, c, t) == {s \in Squares : board[s] = Piece(c, t)}
CountOf(board, c, t) == Cardinality(PiecesOf(board, c, t))
NonKing(board, c) == {s \in Squares : Own(board, s, c) /\ TypeOf(board[s]) # KING}
Minors(board, c) == PiecesOf(board, c, KNIGHT) \cup PiecesOf(board, c, BISHOP)

\* dead positions named by the property: K v K, K+minor v K, KB v KB with same-coloured bishops
Dead(board) ==
    LET w == NonKing(board, WHITE)
        b == NonKing(board, BLACK)
    IN \/ w = {} /\ b = {}
       \/ Cardinality(w \cup b) = 1 /\ (w \cup b) \subseteq (Minors(board, WHITE) \cup Minors(board, BLACK))
       \/ /\ Cardinality(w) = 1 /\ Cardinality(b) = 1
          /\ w = PiecesOf(board, WHITE, BISHOP) /\ b = PiecesOf(board, BLACK, BISHOP)
          /\ \A x \in w, y \in b : IsLight(x) = IsLight(y)

HasMajorOrPawn(board) ==
    \E s \in Squares : board[s] # Empty /\ TypeOf(board[s]) \in {PAWN, ROOK, QUEEN}

\* side c has bishop+knight or two opposite-coloured bishops, the other side a bare king
MatingVsBare(board, c) ==
    /\ NonKing(board, Other(c)) = {}
    /\ \/ CountOf(board, c, BISHOP) >= 1 /\ CountOf(board, c, KNIGHT) >= 1
       \/ \E x, y \in PiecesOf(board, c, BISHOP) : IsLight(x) # IsLight(y)

\* three-valued expectation for the insufficient-material query
MaterialClass(board) ==
    IF Dead(board) THEN "dead"
    ELSE IF HasMajorOrPawn(board) \/ MatingVsBare(board, WHITE) \/ MatingVsBare(board, BLACK)
    THEN "mating"
    ELSE "free"

-----------------------------------------------------------------------------
(* Colour mirror                                                           *)

MirrorSq(s) == IF s = -1 THEN -1 ELSE SqOf(FileOf(s), 7 - RankOf(s))
MirrorPiece(pc) == IF pc = Empty THEN Empty ELSE Piece(Other(ColorOf(pc)), TypeOf(pc))
MirrorRight(r) == IF r = "K" THEN "k" ELSE IF r = "Q" THEN "q" ELSE IF r = "k" THEN "K" ELSE "Q"
Mirror(pos) ==
    [board |-> [s \in Squares |-> MirrorPiece(pos.board[MirrorSq(s)])],
     stm   |-> Other(pos.stm),
     cr    |-> {MirrorRight(r) : r \in pos.cr},
     ep    |-> MirrorSq(pos.ep),
     hmc   |-> pos.hmc,
     fmn   |-> pos.fmn]
MirrorMove(m) == Mv(MirrorSq(From(m)), MirrorSq(To(m)), Promo(m))

-----------------------------------------------------------------------------
(* Standard algebraic notation, as components                              *)

\* moves of the same piece type to the same square (with the same promotion) - SAN rivals
SanRivals(pos, m, legal) ==
    {x \in legal : /\ x # m
                   /\ To(x) = To(m)
                   /\ Promo(x) = Promo(m)
                   /\ TypeOf(pos.board[From(x)]) = TypeOf(pos.board[From(m)])}

\* components of the SAN of legal move m: piece letter index (0 for pawn), whether the origin
\* file / rank must be written (minimal disambiguation: file first, then rank, then both),
\* capture flag, target, promotion, castling side (0 none, 1 short, 2 long)
SanOf(pos, m, legal) ==
    LET t == TypeOf(pos.board[From(m)])
        riv == SanRivals(pos, m, legal)
        sameFile == \E x \in riv : FileOf(From(x)) = FileOf(From(m))
        sameRank == \E x \in riv : RankOf(From(x)) = RankOf(From(m))
        needFile == IF t = PAWN THEN IsCapture(pos, m)
                    ELSE riv # {} /\ (~sameFile \/ sameRank)
        needRank == t # PAWN /\ riv # {} /\ sameFile
    IN [pt |-> t, ff |-> IF needFile THEN FileOf(From(m)) ELSE -1,
        fr |-> IF needRank THEN RankOf(From(m)) ELSE -1,
        cap |-> IsCapture(pos, m), to |-> To(m), promo |-> Promo(m),
        castle |-> IF IsCastle(pos, m) THEN (IF To(m) > From(m) THEN 1 ELSE 2) ELSE 0]

\* the set of legal moves denoted by SAN components (ff / fr = -1 means "not given")
SanMatches(pos, legal, pt, ff, fr, to, promo, castle) ==
    IF castle # 0
    THEN {x \in legal : IsCastle(pos, x) /\ (castle = 1) = (To(x) > From(x))}
    ELSE {x \in legal : /\ ~IsCastle(pos, x)
                        /\ To(x) = to
                        /\ TypeOf(pos.board[From(x)]) = pt
                        /\ Promo(x) = promo
                        /\ ff # -1 => FileOf(From(x)) = ff
                        /\ fr # -1 => RankOf(From(x)) = fr}

-----------------------------------------------------------------------------
(* Well-formedness of a position (used as an invariant of the state machines) *)

WellFormed(pos) ==
    /\ Cardinality(PiecesOf(pos.board, WHITE, KING)) = 1
    /\ Cardinality(PiecesOf(pos.board, BLACK, KING)) = 1
    /\ ~InCheckBoard(pos.board, Other(pos.stm))
    /\ \A s \in Squares : TypeOf(pos.board[s]) = PAWN => RankOf(s) \in 1..6
    /\ "K" \in pos.cr => pos.board[4] = Piece(WHITE, KING) /\ pos.board[7] = Piece(WHITE, ROOK)
    /\ "Q" \in pos.cr => pos.board[4] = Piece(WHITE, KING) /\ pos.board[0] = Piece(WHITE, ROOK)
    /\ "k" \in pos.cr => pos.board[60] = Piece(BLACK, KING) /\ pos.board[63] = Piece(BLACK, ROOK)
    /\ "q" \in pos.cr => pos.board[60] = Piece(BLACK, KING) /\ pos.board[56] = Piece(BLACK, ROOK)
    /\ pos.ep # -1 =>
         LET d == PawnDir(Other(pos.stm)) IN      \* direction of the pawn that just moved
         /\ RankOf(pos.ep) = (IF pos.stm = WHITE THEN 5 ELSE 2)
         /\ pos.board[pos.ep + 8 * d] = Piece(Other(pos.stm), PAWN)
         /\ pos.board[pos.ep] = Empty
         /\ pos.board[pos.ep - 8 * d] = Empty

=============================================================================
