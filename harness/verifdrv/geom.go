package main

// geom: compares every entry enumerated by Geometry.tla with the engine's precomputed tables
// (property C18).

import (
	"bufio"
	"encoding/json"
	"flag"
	"fmt"
	"io"
	"math/rand"
	"strconv"
	"strings"

	. "github.com/frankkopp/FrankyGo/internal/types"
)

func init() { register("geom", geomCmd) }

type geoRec struct {
	T string          `json:"t"`
	S int             `json:"s"`
	A []int           `json:"a"`
	V json.RawMessage `json:"v"`
}

func bbOf(sqs []int) Bitboard {
	var b Bitboard
	for _, s := range sqs {
		b |= Bitboard(1) << uint(s)
	}
	return b
}

// readTagged streams the JSON payloads of <<"TAG", "json">> lines.
func readTagged(paths []string, tag string, each func(js string) error) error {
	prefix := `<<"` + tag + `", "`
	for _, path := range paths {
		rc, err := openMaybeGz(path)
		if err != nil {
			return err
		}
		br := bufio.NewReaderSize(rc, 1<<20)
		for {
			line, err := br.ReadString('\n')
			line = strings.TrimRight(line, "\r\n")
			if strings.HasPrefix(line, prefix) && strings.HasSuffix(line, obsSuffix) {
				q := line[len(prefix)-1 : len(line)-len(obsSuffix)+1]
				s, uerr := strconv.Unquote(q)
				if uerr != nil {
					rc.Close()
					return uerr
				}
				if eerr := each(s); eerr != nil {
					rc.Close()
					return eerr
				}
			}
			if err == io.EOF {
				break
			}
			if err != nil {
				rc.Close()
				return err
			}
		}
		rc.Close()
	}
	return nil
}

func geomCmd(args []string) error {
	fs := flag.NewFlagSet("geom", flag.ContinueOnError)
	obsF := fs.String("obs", "", "TLC output of Geometry.tla")
	outF := fs.String("out", "", "result json")
	seed := fs.Int64("seed", 1, "seed for the off-line occupancy")
	if err := fs.Parse(args); err != nil {
		return err
	}
	res := newResult("geom")
	rng := rand.New(rand.NewSource(*seed))
	perTable := map[string]int64{}
	dirs := Directions // N E S W NE SE SW NW
	bad := func(r *geoRec, sig string, got, want interface{}) {
		res.disc(Disc{Prop: "C18", Kind: "table-entry/" + r.T, Sig: sig,
			Detail: map[string]interface{}{"table": r.T, "square": r.S, "args": r.A, "engine": got, "geometry": want},
			Replay: mustJSON(r)})
	}
	err := readTagged(strings.Split(*obsF, ","), "GEO", func(js string) error {
		var r geoRec
		if err := json.Unmarshal([]byte(js), &r); err != nil {
			return err
		}
		perTable[r.T]++
		res.count("C18.entries", 1)
		var set []int
		var num int
		isSet := json.Unmarshal(r.V, &set) == nil
		if !isSet {
			if err := json.Unmarshal(r.V, &num); err != nil {
				return fmt.Errorf("bad value in %s", js)
			}
		}
		want := bbOf(set)
		sq := Square(r.S)
		cmpBb := func(got Bitboard, sig string) {
			if got != want {
				bad(&r, sig, bbSquares(got), set)
			}
		}
		perr := guard(func() {
			switch r.T {
			case "slideR", "slideB":
				pt := Rook
				if r.T == "slideB" {
					pt = Bishop
				}
				occ := bbOf(r.A)
				if len(r.A) > 0 {
					res.count("C18.nontrivial", 1)
				}
				lines := GetPseudoAttacks(Queen, sq) | sq.Bb()
				// arbitrary occupancy elsewhere must not matter (three variants)
				for k := 0; k < 3; k++ {
					noise := Bitboard(0)
					if k > 0 {
						noise = Bitboard(rng.Uint64()) &^ lines
					}
					if k == 2 {
						noise |= sq.Bb() // the slider's own square may be occupied
					}
					res.count("C18.queries", 1)
					if got := GetAttacksBb(pt, sq, occ|noise); got != want {
						bad(&r, "sliding-attack/"+r.T, bbSquares(got), set)
						break
					}
				}
				// the deprecated rotated-bitboard line lookups (exported, not used by the engine) are the same geometry,
				// one line at a time; lines by coordinates: rank, file, a1-h8 direction, a8-h1 direction
				lineOf := func(f func(x int) bool) Bitboard {
					m := Bitboard(0)
					for x := 0; x < 64; x++ {
						if f(x) {
							m |= Square(x).Bb()
						}
					}
					return m
				}
				s0 := r.S
				noise2 := Bitboard(rng.Uint64())
				if pt == Rook {
					rankM := lineOf(func(x int) bool { return x/8 == s0/8 })
					fileM := lineOf(func(x int) bool { return x%8 == s0%8 })
					res.count("C18.queries", 2)
					if got := GetMovesOnRank(sq, occ|noise2&^rankM); got != want&rankM {
						bad(&r, "line-moves/rank", bbSquares(got), bbSquares(want&rankM))
					}
					if got := GetMovesOnFile(sq, occ|noise2&^fileM); got != want&fileM {
						bad(&r, "line-moves/file", bbSquares(got), bbSquares(want&fileM))
					}
				} else {
					upM := lineOf(func(x int) bool { return x%8-x/8 == s0%8-s0/8 })
					downM := lineOf(func(x int) bool { return x%8+x/8 == s0%8+s0/8 })
					res.count("C18.queries", 2)
					if got := GetMovesDiagUp(sq, occ|noise2&^upM); got != want&upM {
						bad(&r, "line-moves/diag-up", bbSquares(got), bbSquares(want&upM))
					}
					if got := GetMovesDiagDown(sq, occ|noise2&^downM); got != want&downM {
						bad(&r, "line-moves/diag-down", bbSquares(got), bbSquares(want&downM))
					}
				}
				// queen = rook | bishop: checked with the other line empty
				other := Bishop
				if pt == Bishop {
					other = Rook
				}
				if got := GetAttacksBb(Queen, sq, occ); got != want|GetAttacksBb(other, sq, occ) {
					bad(&r, "sliding-attack/queen", bbSquares(got), "rook|bishop")
				}
			case "knight":
				cmpBb(GetAttacksBb(Knight, sq, BbZero), "knight")
				cmpBb(GetPseudoAttacks(Knight, sq), "knight")
			case "king":
				cmpBb(GetAttacksBb(King, sq, BbZero), "king")
				cmpBb(GetPseudoAttacks(King, sq), "king")
			case "pseudoB":
				cmpBb(GetPseudoAttacks(Bishop, sq), r.T)
			case "pseudoR":
				cmpBb(GetPseudoAttacks(Rook, sq), r.T)
			case "pseudoQ":
				cmpBb(GetPseudoAttacks(Queen, sq), r.T)
			case "filesWest":
				cmpBb(sq.FilesWestMask(), r.T)
			case "filesEast":
				cmpBb(sq.FilesEastMask(), r.T)
			case "fileWest":
				cmpBb(sq.FileWestMask(), r.T)
			case "fileEast":
				cmpBb(sq.FileEastMask(), r.T)
			case "ranksNorth":
				cmpBb(sq.RanksNorthMask(), r.T)
			case "ranksSouth":
				cmpBb(sq.RanksSouthMask(), r.T)
			case "neighbours":
				cmpBb(sq.NeighbourFilesMask(), r.T)
			case "pawn":
				cmpBb(GetPawnAttacks(Color(r.A[0]), Square(r.A[1])), r.T)
			case "passed":
				cmpBb(Square(r.A[1]).PassedPawnMask(Color(r.A[0])), r.T)
			case "ray":
				cmpBb(Square(r.A[1]).Ray(Orientation(r.A[0])), r.T)
			case "between":
				cmpBb(Intermediate(Square(r.A[0]), Square(r.A[1])), r.T)
				cmpBb(Square(r.A[0]).Intermediate(Square(r.A[1])), r.T)
			case "shift":
				cmpBb(ShiftBitboard(Square(r.A[0]).Bb(), dirs[r.A[1]]), r.T)
			case "to":
				if got := int(Square(r.A[0]).To(dirs[r.A[1]])); got != num {
					bad(&r, r.T, got, num)
				}
			case "dist":
				if got := SquareDistance(Square(r.A[0]), Square(r.A[1])); got != num {
					bad(&r, r.T, got, num)
				}
			case "center":
				if got := sq.CenterDistance(); got != num {
					bad(&r, r.T, got, num)
				}
			case "fileBb":
				cmpBb(sq.FileOf().Bb(), r.T)
			case "rankBb":
				cmpBb(sq.RankOf().Bb(), r.T)
			case "colourBb":
				c := Color(r.A[0])
				cmpBb(SquaresBb(c), r.T)
				if SquaresBb(c.Flip())&want != 0 || !SquaresBb(c).Has(Square(r.A[1])) {
					bad(&r, r.T+"/overlap", bbSquares(SquaresBb(c.Flip())), set)
				}
			case "castleK":
				cmpBb(KingSideCastleMask(Color(r.A[0])), r.T)
			case "castleQ":
				cmpBb(QueenSideCastMask(Color(r.A[0])), r.T)
			case "castle":
				if got := int(GetCastlingRights(sq)); got != num {
					bad(&r, r.T, got, num)
				}
			default:
				panic("unknown table " + r.T)
			}
		})
		if perr != "" {
			bad(&r, "panic", perr, nil)
		}
		if r.T != "slideR" && r.T != "slideB" {
			res.count("C18.nontrivial", 1)
			res.count("C18.queries", 1)
		}
		if perTable[r.T] == 7 {
			res.sample("C18", json.RawMessage(js))
		}
		return nil
	})
	if err != nil {
		return err
	}
	// shifts are additive: the shift of a board is the union of the shifts of its squares
	for i := 0; i < 2000; i++ {
		b := Bitboard(rng.Uint64())
		if i%3 == 0 {
			b &= Bitboard(rng.Uint64())
		}
		for _, d := range dirs {
			var u Bitboard
			for x := b; x != 0; {
				s := x.PopLsb()
				u |= ShiftBitboard(s.Bb(), d)
			}
			res.count("C18.shift_additivity", 1)
			if got := ShiftBitboard(b, d); got != u {
				res.disc(Disc{Prop: "C18", Kind: "shift-additivity", Sig: "shift/" + d.String(),
					Detail: map[string]interface{}{"board": uint64(b), "dir": d.String(), "engine": uint64(got), "union_of_single_shifts": uint64(u)}})
			}
		}
	}
	res.Extra["entries_per_table"] = perTable
	return res.write(*outF)
}

func mustJSON(v interface{}) json.RawMessage {
	b, _ := json.Marshal(v)
	return b
}
