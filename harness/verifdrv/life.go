package main

// life-run: drives a real Search through its lifecycle interface from one controller goroutine
// (as the protocol loop does) following scripts of calls, and records
//   - the hook events of internal/search (build tag verif) with a global sequence number,
//   - one record per controller call (start / return, watchdog expiry),
//   - every result callback.
// Monitors evaluated on the real run (properties C12 / C14): every call returns, exactly one
// result per accepted start, no result of an infinite / ponder search before its stop.
// The recorded events are validated against SearchLifecycle.tla afterwards (trace validation).
// With the -race build of the driver the Go race detector watches the same runs.

import (
	"bytes"
	"encoding/json"
	"flag"
	"fmt"
	"math/rand"
	"os"
	"runtime"
	"sync"
	"sync/atomic"
	"time"

	"github.com/frankkopp/FrankyGo/internal/config"
	"github.com/frankkopp/FrankyGo/internal/movegen"
	"github.com/frankkopp/FrankyGo/internal/moveslice"
	"github.com/frankkopp/FrankyGo/internal/position"
	"github.com/frankkopp/FrankyGo/internal/search"
	. "github.com/frankkopp/FrankyGo/internal/types"
)

func init() { register("life-run", lifeRun) }

// LifeCall is one controller call of a script.
type LifeCall struct {
	Op    string `json:"op"`    // start | stop | wait | issearching | ponderhit | newgame | clearhash | resize | isready | sleep
	Mode  string `json:"mode"`  // for start: depth | time | inf | ponder
	Fen   string `json:"fen"`   // for start
	Depth int    `json:"depth"` // for start/depth
	Ms    int    `json:"ms"`    // movetime for start/time, remaining time for ponder, duration for sleep
}

type LifeScript struct {
	ID    int        `json:"id"`
	Name  string     `json:"name"`
	Calls []LifeCall `json:"calls"`
	// random delay (0..Jitter microseconds) injected at every hook, to shake the interleavings
	Jitter int `json:"jitter"`
	// number of processors the Go scheduler may use for this script (0 = all). With ONE processor a
	// freshly spawned goroutine (a timer) gets to run only when the spawning goroutine blocks or ends:
	// the schedules "the timer goroutine starts after its search has ended" become the common case
	Procs int `json:"procs"`
}

type LifeEvent struct {
	Seq   int64  `json:"seq"`
	T     int64  `json:"t_us"`
	G     string `json:"g"`  // "c" controller, "r<id>" search goroutine, "t<id>" timer goroutine
	At    string `json:"at"` // hook point, or call.<op>.begin / call.<op>.end / result
	Mode  string `json:"mode,omitempty"`
	Best  string `json:"best,omitempty"`
	Value bool   `json:"value,omitempty"` // result of issearching
}

type LifeResult struct {
	ID      int         `json:"id"`
	Name    string      `json:"name"`
	Events  []LifeEvent `json:"events"`
	Hang    string      `json:"hang"`  // call that did not return within the watchdog
	Panic   string      `json:"panic"` // panic in a controller call
	Results int         `json:"results"`
}

type lifeRec struct {
	mu     sync.Mutex
	events []LifeEvent
	seq    int64
	t0     time.Time
	jitter int
	rng    *rand.Rand
	// goroutine classification: ids handed out by verifNewID are shared by searches and timers;
	// the first point seen for an id tells which it is
	kind map[int]string
}

func (r *lifeRec) add(g, at, mode, best string, val bool) {
	r.mu.Lock()
	r.seq++
	r.events = append(r.events, LifeEvent{Seq: r.seq, T: time.Since(r.t0).Microseconds(), G: g, At: at, Mode: mode, Best: best, Value: val})
	r.mu.Unlock()
}

func (r *lifeRec) hook(point string, id int) {
	g := "c"
	if id != 0 {
		r.mu.Lock()
		k, ok := r.kind[id]
		if !ok {
			if point[0] == 't' {
				k = "t"
			} else {
				k = "r"
			}
			r.kind[id] = k
		}
		r.mu.Unlock()
		g = fmt.Sprintf("%s%d", k, id)
	}
	if point != "t.poll" && point != "r.wait" && point != "r.born" && point != "t.born" { // stuttering steps and goroutine births are not logged
		r.add(g, point, "", "", false)
	}
	if r.jitter > 0 {
		r.mu.Lock()
		d := r.rng.Intn(r.jitter)
		r.mu.Unlock()
		if d > 0 {
			time.Sleep(time.Duration(d) * time.Microsecond)
		}
	}
}

// lifeCapture implements uciInterface.UciDriver
type lifeCapture struct {
	rec     *lifeRec
	results int64
}

func (c *lifeCapture) SendReadyOk()          { c.rec.add("x", "readyok", "", "", false) }
func (c *lifeCapture) SendInfoString(string) {}
func (c *lifeCapture) SendIterationEndInfo(int, int, Value, uint64, uint64, time.Duration, moveslice.MoveSlice) {
}
func (c *lifeCapture) SendAspirationResearchInfo(int, int, Value, string, uint64, uint64, time.Duration, moveslice.MoveSlice) {
}
func (c *lifeCapture) SendCurrentRootMove(Move, int)                                {}
func (c *lifeCapture) SendSearchUpdate(int, int, uint64, uint64, time.Duration, int) {}
func (c *lifeCapture) SendCurrentLine(moveslice.MoveSlice)                           {}
func (c *lifeCapture) SendResult(best Move, ponder Move) {
	atomic.AddInt64(&c.results, 1)
	c.rec.add("x", "result", "", best.StringUci(), false)
}

func lifeRun(args []string) error {
	fs := flag.NewFlagSet("life-run", flag.ContinueOnError)
	inF := fs.String("scripts", "", "ndjson scripts")
	outF := fs.String("out", "", "ndjson results")
	seed := fs.Int64("seed", 1, "seed")
	wd := fs.Int("watchdog", 3000, "watchdog per call in ms")
	only := fs.Int("only", 0, "run only the script with this id (child process mode)")
	if err := fs.Parse(args); err != nil {
		return err
	}
	data, err := os.ReadFile(*inF)
	if err != nil {
		return err
	}
	of, err := os.OpenFile(*outF, os.O_CREATE|os.O_WRONLY|os.O_APPEND, 0o644)
	if err != nil {
		return err
	}
	defer of.Close()
	dec := json.NewDecoder(bytes.NewReader(data))
	for dec.More() {
		var sc LifeScript
		if err := dec.Decode(&sc); err != nil {
			return err
		}
		if *only != 0 && sc.ID != *only {
			continue
		}
		res := runLifeScript(&sc, *seed, time.Duration(*wd)*time.Millisecond)
		b, _ := json.Marshal(res)
		of.Write(append(b, '\n'))
		of.Sync()
		if res.Hang != "" {
			// a blocked controller call cannot be cancelled: the process is abandoned
			os.Exit(3)
		}
	}
	return nil
}

func runLifeScript(sc *LifeScript, seed int64, watchdog time.Duration) *LifeResult {
	if sc.Procs > 0 {
		defer runtime.GOMAXPROCS(runtime.GOMAXPROCS(sc.Procs))
	}
	rec := &lifeRec{t0: time.Now(), jitter: sc.Jitter, rng: rand.New(rand.NewSource(seed + int64(sc.ID))), kind: map[int]string{}}
	search.VerifAtHook = rec.hook
	search.VerifTerminalHook = nil
	// a small hash table: allocating and ageing the default 256 MB table takes seconds on a loaded
	// machine and would be mistaken for a hanging call
	config.Settings.Search.TTSize = 8
	config.Settings.Search.UseBook = false
	cap := &lifeCapture{rec: rec}
	// objects are constructed as the protocol loop constructs them, on the controller goroutine: a position and a move
	// generator first (their constructors set up package-level loggers lazily - in the engine that has happened long
	// before the first search goroutine runs), then the search
	_ = position.NewPosition()
	_ = movegen.NewMoveGen()
	s := search.NewSearch()
	s.SetUciHandler(cap)
	res := &LifeResult{ID: sc.ID, Name: sc.Name}
	for i, c := range sc.Calls {
		c := c
		done := make(chan string, 1)
		rec.add("c", "call."+c.Op+".begin", c.Mode, "", false)
		go func() {
			done <- guard(func() {
				switch c.Op {
				case "start":
					p, _ := position.NewPositionFen(c.Fen)
					if p == nil {
						panic("bad fen in script")
					}
					sl := search.NewSearchLimits()
					switch c.Mode {
					case "depth":
						sl.Depth = c.Depth
					case "time":
						sl.TimeControl = true
						sl.MoveTime = time.Duration(c.Ms) * time.Millisecond
					case "inf":
						sl.Infinite = true
						sl.Depth = c.Depth // 0 = really unlimited; > 0: the search work finishes early, the result must still wait
					case "ponder":
						sl.Ponder = true
						sl.TimeControl = true
						sl.WhiteTime = time.Duration(c.Ms) * time.Millisecond
						sl.BlackTime = sl.WhiteTime
						sl.Depth = c.Depth
					}
					s.StartSearch(*p, *sl)
				case "stop":
					s.StopSearch()
				case "wait":
					s.WaitWhileSearching()
				case "issearching":
					v := s.IsSearching()
					rec.add("c", "issearching.value", "", "", v)
				case "ponderhit":
					s.PonderHit()
				case "newgame":
					s.NewGame()
				case "clearhash":
					s.ClearHash()
				case "resize":
					// as 'setoption name Hash value N' does: the configured size changes, then the cache is resized
					// (or the resize is refused because a search is running - the configured size stays changed)
					if config.Settings.Search.TTSize == 8 {
						config.Settings.Search.TTSize = 4
					} else {
						config.Settings.Search.TTSize = 8
					}
					s.ResizeCache()
				case "isready":
					s.IsReady()
				case "sleep":
					time.Sleep(time.Duration(c.Ms) * time.Millisecond)
				}
			})
		}()
		select {
		case e := <-done:
			rec.add("c", "call."+c.Op+".end", "", "", false)
			if e != "" {
				res.Panic = fmt.Sprintf("call %d (%s): %s", i+1, c.Op, e)
			}
		case <-time.After(watchdog):
			res.Hang = fmt.Sprintf("call %d (%s %s) did not return within %s", i+1, c.Op, c.Mode, watchdog)
		}
		if res.Hang != "" || res.Panic != "" {
			break
		}
	}
	if res.Hang == "" {
		// quiesce: stop whatever is still running and let stray timers die before the next script
		fin := make(chan bool, 1)
		rec.add("c", "call.stop.begin", "", "", false)
		go func() { s.StopSearch(); fin <- true }()
		select {
		case <-fin:
			rec.add("c", "call.stop.end", "", "", false)
		case <-time.After(watchdog):
			res.Hang = "final StopSearch did not return"
		}
		time.Sleep(15 * time.Millisecond)
	}
	rec.mu.Lock()
	res.Events = append([]LifeEvent{}, rec.events...)
	rec.mu.Unlock()
	res.Results = int(atomic.LoadInt64(&cap.results))
	return res
}
