package main

// uci-session: runs ONE scripted session against a real UciHandler.Loop() over in-process pipes
// (this process is meant to be a child process: a panic of the handler kills it and the
// orchestrator sees how far the session got). Every line sent and received is appended to the
// output file at once, with a timestamp; "sync" steps (isready/readyok barrier) also record the
// FEN of the position the handler holds (verif accessor). Properties C12 and C16.

import (
	"bufio"
	"encoding/json"
	"flag"
	"fmt"
	"io"
	"os"
	"strings"
	"sync"
	"time"

	"github.com/frankkopp/FrankyGo/internal/config"
	"github.com/frankkopp/FrankyGo/internal/uci"
)

func init() { register("uci-session", uciSession) }

type UciStep struct {
	Op     string `json:"op"` // send | wait | sync | sleep | quiet
	Line   string `json:"line"`
	Prefix string `json:"prefix"`
	Ms     int    `json:"ms"`
}

type UciScript struct {
	ID    int       `json:"id"`
	Name  string    `json:"name"`
	Steps []UciStep `json:"steps"`
	Book  string    `json:"book"` // directory with book_smalltest.txt: the session runs with this opening book
}

type UciEvent struct {
	Ev   string  `json:"ev"` // in | out | timeout | fen | quiet | end | start
	Line string  `json:"line,omitempty"`
	T    float64 `json:"t_ms"`
	N    int     `json:"n,omitempty"`
}

func uciSession(args []string) error {
	fs := flag.NewFlagSet("uci-session", flag.ContinueOnError)
	inF := fs.String("script", "", "json script")
	outF := fs.String("out", "", "ndjson event file (appended at once)")
	if err := fs.Parse(args); err != nil {
		return err
	}
	data, err := os.ReadFile(*inF)
	if err != nil {
		return err
	}
	var sc UciScript
	if err := json.Unmarshal(data, &sc); err != nil {
		return err
	}
	of, err := os.OpenFile(*outF, os.O_CREATE|os.O_WRONLY|os.O_TRUNC, 0o644)
	if err != nil {
		return err
	}
	defer of.Close()
	t0 := time.Now()
	var mu sync.Mutex
	emit := func(ev, line string, n int) {
		mu.Lock()
		b, _ := json.Marshal(UciEvent{Ev: ev, Line: line, T: float64(time.Since(t0).Microseconds()) / 1000, N: n})
		of.Write(append(b, '\n'))
		mu.Unlock()
	}
	config.Settings.Search.UseBook = false
	if sc.Book != "" {
		config.Settings.Search.UseBook = true
		config.Settings.Search.BookPath = sc.Book
		config.Settings.Search.BookFile = "book_smalltest.txt"
		config.Settings.Search.BookFormat = "Simple"
	}
	config.Settings.Search.TTSize = 16
	// the handler as main() builds it, talking to pipes
	inR, inW := io.Pipe()
	outR, outW := io.Pipe()
	u := uci.NewUciHandler()
	u.InIo = bufio.NewScanner(inR)
	u.InIo.Buffer(make([]byte, 1<<20), 1<<20)
	u.OutIo = bufio.NewWriter(outW)
	loopDone := make(chan bool, 1)
	go func() { u.Loop(); loopDone <- true }()
	// reader
	lines := make(chan string, 10000)
	var hmu sync.Mutex
	history := []string{}
	go func() {
		r := bufio.NewScanner(outR)
		r.Buffer(make([]byte, 1<<20), 1<<20)
		for r.Scan() {
			l := r.Text()
			emit("out", l, 0)
			hmu.Lock()
			history = append(history, l)
			hmu.Unlock()
			lines <- l
		}
	}()
	send := func(l string) {
		emit("in", l, 0)
		io.WriteString(inW, l+"\n")
	}
	// waitFor consumes received lines until one starts with prefix
	waitFor := func(prefix string, ms int) bool {
		deadline := time.After(time.Duration(ms) * time.Millisecond)
		for {
			select {
			case l := <-lines:
				if strings.HasPrefix(l, prefix) {
					return true
				}
			case <-deadline:
				return false
			}
		}
	}
	emit("start", sc.Name, sc.ID)
	for _, st := range sc.Steps {
		switch st.Op {
		case "send":
			send(st.Line)
		case "wait":
			if !waitFor(st.Prefix, st.Ms) {
				emit("timeout", st.Prefix, st.Ms)
			}
		case "sync":
			send("isready")
			if !waitFor("readyok", st.Ms) {
				emit("timeout", "readyok", st.Ms)
			} else {
				var fen string
				if e := guard(func() { fen = u.VerifPositionFen() }); e != "" {
					fen = "<panic: " + e + ">"
				}
				emit("fen", fen, 0)
			}
		case "sleep":
			time.Sleep(time.Duration(st.Ms) * time.Millisecond)
		case "quiet":
			// no line with the prefix may arrive during the window
			n := 0
			deadline := time.After(time.Duration(st.Ms) * time.Millisecond)
		loop:
			for {
				select {
				case l := <-lines:
					if strings.HasPrefix(l, st.Prefix) {
						n++
					}
				case <-deadline:
					break loop
				}
			}
			emit("quiet", st.Prefix, n)
		default:
			return fmt.Errorf("unknown step %s", st.Op)
		}
	}
	send("quit")
	select {
	case <-loopDone:
		emit("end", "loop-exited", 0)
	case <-time.After(3 * time.Second):
		emit("end", "loop-did-not-exit", 0)
	}
	return nil
}
