package main

// search-record: runs real searches described by a job file and records what each one reported
// (best move, ponder move, value, depth, every PV line, terminal-node classifications from the
// verif hook, elapsed time, node count) as ndjson. The records are validated afterwards against
// ChessRules.tla by TLC (PV lines must be behaviours of ChessGame, terminal nodes must have no
// legal move) - properties C05, C06, C07, C13.

import (
	"strings"
	"bufio"
	"encoding/json"
	"flag"
	"fmt"
	"os"
	"reflect"
	"sync"
	"time"

	"github.com/frankkopp/FrankyGo/internal/config"
	"github.com/frankkopp/FrankyGo/internal/evaluator"
	"github.com/frankkopp/FrankyGo/internal/moveslice"
	"github.com/frankkopp/FrankyGo/internal/position"
	"github.com/frankkopp/FrankyGo/internal/search"
	. "github.com/frankkopp/FrankyGo/internal/types"
)

func init() {
	register("search-record", searchRecord)
	register("timectl", timeCtl)
	register("leaf-eval", leafEval)
}

// Job describes one search.
type Job struct {
	ID    int      `json:"id"`
	Pos   SpecPos  `json:"pos"`   // position searched (spec state of the node)
	Root  SpecPos  `json:"root"`  // root of the game the node belongs to
	Path  []int    `json:"path"`  // moves from root to pos (spec encoding) - gives the search its history
	Kinds [][2]int `json:"kinds"` // move kinds for path
	Mode  string   `json:"mode"`  // depth | nodes | movetime | clock | infinite | ponder | ponderhit
	Depth int      `json:"depth"`
	Nodes uint64   `json:"nodes"`
	// times in milliseconds
	MoveTime  int `json:"movetime"`
	Time      int `json:"time"` // remaining clock time for both sides
	Inc       int `json:"inc"`
	MovesToGo int `json:"movestogo"`
	StopAfter int `json:"stopafter"` // for infinite / ponder: stop (or ponderhit) after this many ms
	// configuration: names of boolean fields of Settings.Search -> value; everything else default
	Cfg      map[string]bool `json:"cfg"`
	IIDDepth int             `json:"iiddepth"`
	// TT state before the search: "" fresh | "other" (a search of another position) | "same" (a
	// shallower search of the same position) | "deeper"
	Prefill     string `json:"prefill"`
	SearchMoves []int  `json:"searchmoves"`
	Tag         string `json:"tag"`
}

type termEvent struct {
	Fen  string `json:"fen"`
	Mate bool   `json:"mate"`
	Qs   bool   `json:"qs"`
	Ply  int    `json:"ply"`
}

// Rec is the record of one search.
type Rec struct {
	ID        int         `json:"id"`
	Tag       string      `json:"tag"`
	Fen       string      `json:"fen"`
	Mode      string      `json:"mode"`
	Best      int         `json:"best"`   // spec move or -1
	Ponder    int         `json:"ponder"` // spec move or -1
	PonderRaw uint32      `json:"ponder_raw"`
	Value     int         `json:"value"`
	Depth     int         `json:"depth"`
	Extra     int         `json:"extra"`
	Nodes     uint64      `json:"nodes"`
	Drifted   bool        `json:"phase_drifted_root"` // the root position's game phase differs from that of a fresh position from its FEN
	Clamps    int64       `json:"phase_clamps"` // game phase sums above the maximum cut down during the search (hook): the phase may have drifted
	ElapsedMs float64     `json:"elapsed_ms"`
	Pv        []int       `json:"pv"`
	Infos     [][]int     `json:"infos"` // PV lines reported during the search
	InfoVals  []int       `json:"info_vals"`
	Terminal  []termEvent `json:"terminal"`
	Results   int         `json:"results"`  // number of bestmove callbacks
	EarlyMs   float64     `json:"early_ms"` // infinite/ponder: time of the result relative to the stop (negative = before it)
	Unchanged bool        `json:"unchanged"`
	Error     string      `json:"error"` // panic / hang description
	Mates     uint64      `json:"stat_mates"`
	Stales    uint64      `json:"stat_stalemates"`
	Limit     float64     `json:"limit_ms"` // the engine's own time limit if time controlled
	Allotted  float64     `json:"allotted_ms"` // time limit + extra time at the end of the search
	RepRoot   bool        `json:"rep_root"` // position already occurred twice or clock >= 100
	Cfg       string      `json:"cfg"`
}

// capture implements uciInterface.UciDriver
type capture struct {
	mu       sync.Mutex
	infos    [][]int
	infoVals []int
	results  int
	resultAt time.Time
	best     Move
	ponder   Move
}

func (c *capture) SendReadyOk()          {}
func (c *capture) SendInfoString(string) {}
func (c *capture) SendIterationEndInfo(depth int, seldepth int, value Value, nodes uint64, nps uint64, t time.Duration, pv moveslice.MoveSlice) {
	c.mu.Lock()
	defer c.mu.Unlock()
	line := []int{}
	for _, m := range pv {
		line = append(line, specMove(m))
	}
	c.infos = append(c.infos, line)
	c.infoVals = append(c.infoVals, int(value))
}
func (c *capture) SendAspirationResearchInfo(depth int, seldepth int, value Value, bound string, nodes uint64, nps uint64, t time.Duration, pv moveslice.MoveSlice) {
}
func (c *capture) SendCurrentRootMove(Move, int)                                {}
func (c *capture) SendSearchUpdate(int, int, uint64, uint64, time.Duration, int) {}
func (c *capture) SendCurrentLine(moveslice.MoveSlice)                           {}
func (c *capture) SendResult(bestMove Move, ponderMove Move) {
	c.mu.Lock()
	defer c.mu.Unlock()
	c.results++
	c.resultAt = time.Now()
	c.best, c.ponder = bestMove, ponderMove
}

var defaultSearchCfg = config.Settings.Search
var defaultEvalCfg = config.Settings.Eval

func applyCfg(j *Job) string {
	config.Settings.Search = defaultSearchCfg
	config.Settings.Eval = defaultEvalCfg
	config.Settings.Search.UseBook = false
	config.Settings.Search.TTSize = 8
	v := reflect.ValueOf(&config.Settings.Search).Elem()
	desc := ""
	for name, val := range j.Cfg {
		f := v.FieldByName(name)
		if !f.IsValid() || f.Kind() != reflect.Bool {
			panic("unknown search switch " + name)
		}
		f.SetBool(val)
	}
	if j.IIDDepth > 0 {
		config.Settings.Search.IIDDepth = j.IIDDepth
	}
	b, _ := json.Marshal(j.Cfg)
	desc = string(b)
	return desc
}

func limitsOf(j *Job, p *position.Position) *search.Limits {
	sl := search.NewSearchLimits()
	switch j.Mode {
	case "depth":
		sl.Depth = j.Depth
	case "nodes":
		sl.Nodes = j.Nodes
		if j.Depth > 0 {
			sl.Depth = j.Depth
		}
	case "movetime":
		sl.TimeControl = true
		sl.MoveTime = time.Duration(j.MoveTime) * time.Millisecond
	case "clock", "ponder", "ponderhit":
		sl.TimeControl = true
		sl.WhiteTime = time.Duration(j.Time) * time.Millisecond
		sl.BlackTime = sl.WhiteTime
		sl.WhiteInc = time.Duration(j.Inc) * time.Millisecond
		sl.BlackInc = sl.WhiteInc
		sl.MovesToGo = j.MovesToGo
		if j.Mode != "clock" {
			sl.Ponder = true
		}
	case "infinite":
		sl.Infinite = true
	}
	if j.Depth > 0 && sl.Depth == 0 && j.Mode != "depth" {
		sl.Depth = j.Depth
	}
	for _, m := range j.SearchMoves {
		sl.Moves.PushBack(engineMoveOn(p, m))
	}
	return sl
}

// engineMoveOn builds the engine move for a spec move on position p (kind derived from the board
// syntactically: promotion flag, king moving two files, pawn moving diagonally onto an empty square)
func engineMoveOn(p *position.Position, m int) Move {
	kind := 0
	from, to := Square(mvFrom(m)), Square(mvTo(m))
	pc := p.GetPiece(from)
	switch {
	case mvPromo(m) > 0:
		kind = 1
	case pc.TypeOf() == King && (int(from)%8-int(to)%8 == 2 || int(to)%8-int(from)%8 == 2):
		kind = 3
	case pc.TypeOf() == Pawn && int(from)%8 != int(to)%8 && p.GetPiece(to) == PieceNone:
		kind = 2
	}
	return engineMove(m, kind)
}

func buildPos(j *Job) *position.Position {
	p, _ := position.NewPositionFen(j.Root.Fen())
	if p == nil {
		panic("root fen rejected")
	}
	for i, m := range j.Path {
		p.DoMove(engineMove(m, j.Kinds[i][0]))
	}
	if p.StringFen() != j.Pos.Fen() {
		panic("job position mismatch: " + p.StringFen() + " vs " + j.Pos.Fen())
	}
	return p
}

// runSearch executes the job on s; returns false when the search hung.
func runSearch(s *search.Search, cap *capture, j *Job, rec *Rec, watchdog time.Duration) bool {
	p := buildPos(j)
	rec.Fen = p.StringFen()
	rec.RepRoot = p.CheckRepetitions(2) || p.HalfMoveClock() >= 100
	if fresh, _ := position.NewPositionFen(p.StringFen()); fresh != nil {
		rec.Drifted = fresh.GamePhase() != p.GamePhase()
	}
	before := takeSnap(p, false)
	sl := limitsOf(j, p)
	var terms []termEvent
	seen := map[string]bool{}
	var tmu sync.Mutex
	search.VerifTerminalHook = func(tp *position.Position, mate bool, ply int, qs bool) {
		fen := tp.StringFen()
		k := fmt.Sprint(fen, mate)
		tmu.Lock()
		if !seen[k] && len(terms) < 400 {
			seen[k] = true
			terms = append(terms, termEvent{fen, mate, qs, ply})
		}
		tmu.Unlock()
	}
	done := make(chan string, 1)
	var stopAt time.Time
	start := time.Now()
	clamps0 := position.VerifPhaseClamps()
	go func() {
		done <- guard(func() {
			s.StartSearch(*p, *sl)
			switch j.Mode {
			case "infinite", "ponder":
				time.Sleep(time.Duration(j.StopAfter) * time.Millisecond)
				stopAt = time.Now()
				s.StopSearch()
			case "ponderhit":
				time.Sleep(time.Duration(j.StopAfter) * time.Millisecond)
				stopAt = time.Now()
				s.PonderHit()
				s.WaitWhileSearching()
			default:
				s.WaitWhileSearching()
			}
		})
	}()
	select {
	case e := <-done:
		rec.Error = e
	case <-time.After(watchdog):
		// slow or hung? A search that still visits nodes is working (a loaded machine, an expensive combination of
		// switches): it is given ten times the watchdog. HANG = no node visited for two seconds; SLOW = still
		// visiting nodes when the extended time is up (a verdict only for searches whose limit should have ended them).
		waited := watchdog
		for finished := false; !finished; {
			n1 := s.NodesVisited()
			select {
			case e := <-done:
				rec.Error = e
				finished = true
				continue
			case <-time.After(2 * time.Second):
			}
			waited += 2 * time.Second
			if s.NodesVisited() == n1 {
				rec.Error = fmt.Sprintf("HANG: search did not terminate within %s and visits no nodes any more", waited)
				return false
			}
			if waited > 10*watchdog {
				rec.Error = fmt.Sprintf("SLOW: search still visiting nodes after %s (%d nodes)", waited, s.NodesVisited())
				return false
			}
		}
	}
	rec.ElapsedMs = float64(time.Since(start).Microseconds()) / 1000
	rec.Allotted = float64(s.VerifAllotted().Microseconds()) / 1000
	if rec.Error != "" {
		return true
	}
	r := s.LastSearchResult()
	rec.Best, rec.Ponder = -1, -1
	if r.BestMove != MoveNone {
		rec.Best = specMove(r.BestMove)
	}
	if r.PonderMove != MoveNone {
		rec.Ponder = specMove(r.PonderMove)
		rec.PonderRaw = uint32(r.PonderMove)
	}
	rec.Value, rec.Depth, rec.Extra = int(r.BestValue), r.SearchDepth, r.ExtraDepth
	rec.Nodes = s.NodesVisited()
	rec.Clamps = position.VerifPhaseClamps() - clamps0
	rec.Pv = []int{}
	for _, m := range r.Pv {
		rec.Pv = append(rec.Pv, specMove(m))
	}
	cap.mu.Lock()
	rec.Infos, rec.InfoVals, rec.Results = cap.infos, cap.infoVals, cap.results
	if !stopAt.IsZero() && !cap.resultAt.IsZero() {
		rec.EarlyMs = float64(cap.resultAt.Sub(stopAt).Microseconds()) / 1000
	}
	cap.infos, cap.infoVals, cap.results = nil, nil, 0
	cap.mu.Unlock()
	if rec.Infos == nil {
		rec.Infos = [][]int{}
	}
	tmu.Lock()
	rec.Terminal = terms
	tmu.Unlock()
	if rec.Terminal == nil {
		rec.Terminal = []termEvent{}
	}
	rec.Mates, rec.Stales = s.Statistics().Checkmates, s.Statistics().Stalemates
	after := takeSnap(p, false)
	rec.Unchanged = len(snapDiff(before, after)) == 0
	if sl.TimeControl {
		rec.Limit = float64(s.VerifSetupTimeControl(p, sl).Microseconds()) / 1000
	}
	return true
}

func searchRecord(args []string) error {
	fs := flag.NewFlagSet("search-record", flag.ContinueOnError)
	jobsF := fs.String("jobs", "", "ndjson job file")
	outF := fs.String("rec", "", "ndjson record file to write")
	skip := fs.Int("skip", 0, "skip the first n jobs")
	wd := fs.Int("watchdog", 20000, "watchdog per search in ms")
	if err := fs.Parse(args); err != nil {
		return err
	}
	jf, err := os.Open(*jobsF)
	if err != nil {
		return err
	}
	defer jf.Close()
	of, err := os.OpenFile(*outF, os.O_CREATE|os.O_WRONLY|os.O_APPEND, 0o644)
	if err != nil {
		return err
	}
	defer of.Close()
	w := bufio.NewWriter(of)
	defer w.Flush()
	sc := bufio.NewScanner(jf)
	sc.Buffer(make([]byte, 1<<22), 1<<22)
	// objects are constructed as the protocol loop constructs them: one search for the session
	cap := &capture{}
	var s *search.Search
	lastCfg := ""
	n := 0
	for sc.Scan() {
		n++
		if n <= *skip {
			continue
		}
		var j Job
		if err := json.Unmarshal(sc.Bytes(), &j); err != nil {
			return fmt.Errorf("job %d: %v", n, err)
		}
		rec := Rec{ID: j.ID, Tag: j.Tag, Mode: j.Mode, Best: -1, Ponder: -1}
		cfg := applyCfg(&j)
		rec.Cfg = cfg
		// a fresh engine unless the job asks for leftovers of an earlier search
		if s == nil || j.Prefill == "" || cfg != lastCfg {
			s = search.NewSearch()
			s.SetUciHandler(cap)
		} else {
			s.NewGame() // keeps nothing: used only to vary the code path
			s = search.NewSearch()
			s.SetUciHandler(cap)
		}
		lastCfg = cfg
		ok := true
		if j.Prefill != "" {
			pre := j
			pre.Mode, pre.Nodes, pre.SearchMoves = "depth", 0, nil
			switch j.Prefill {
			case "other":
				pre.Pos, pre.Path, pre.Kinds = j.Root, nil, nil
				pre.Depth = 3
			case "same":
				pre.Depth = 2
			case "deeper":
				pre.Depth = j.Depth + 2
				if pre.Depth < 4 {
					pre.Depth = 4
				}
			// the LIMITS of an earlier search on the same Search object: none of them may bind the next one
			case "limit-nodes":
				pre.Mode, pre.Nodes, pre.Depth = "nodes", 150, 0
			case "limit-movetime":
				pre.Mode, pre.MoveTime, pre.Depth = "movetime", 25, 0
			case "limit-depth":
				pre.Depth = 1
			case "limit-clock":
				pre.Mode, pre.Time, pre.Inc, pre.MovesToGo, pre.Depth = "clock", 40, 0, 1, 0
			}
			var dummy Rec
			ok = runSearch(s, cap, &pre, &dummy, time.Duration(*wd)*time.Millisecond)
			if dummy.Error != "" {
				rec.Error = "prefill: " + dummy.Error
			}
		}
		if ok && rec.Error == "" {
			ok = runSearch(s, cap, &j, &rec, time.Duration(*wd)*time.Millisecond)
		}
		b, _ := json.Marshal(&rec)
		w.Write(b)
		w.WriteByte('\n')
		w.Flush()
		if !ok {
			// a hung search cannot be cancelled: leave, the orchestrator restarts after this job
			of.Sync()
			os.Exit(3)
		}
	}
	return sc.Err()
}

// ------------------------------------------------------------------------------------ timectl

// timeCtl plays the clock game of TimeControl.tla with the engine's real time-budget function:
// for every grid point printed by TLC (<<"GRID", ...>> lines) it asks the engine for a budget,
// subtracts it from the clock, adds the increment and repeats for the announced moves-to-go (or 15
// moves). The games are written as an ndjson trace (start / move events) for validation by TLC.
func timeCtl(args []string) error {
	fs := flag.NewFlagSet("timectl", flag.ContinueOnError)
	inF := fs.String("grid", "", "TLC output with GRID lines")
	outF := fs.String("trace", "", "ndjson trace to write")
	bookDir := fs.String("bookdir", "", "directory with book_smalltest.txt: the first move of every ext-th game is searched by a real Search right after a real book move")
	extEvery := fs.Int("ext", 1, "with -bookdir: every n-th game gets the real first search")
	if err := fs.Parse(args); err != nil {
		return err
	}
	of, err := os.Create(*outF)
	if err != nil {
		return err
	}
	defer of.Close()
	w := bufio.NewWriter(of)
	defer w.Flush()
	// positions with game phase 24, 12 and 0
	fens := map[int][2]string{
		24: {"rnbqkbnr/pppppppp/8/8/8/8/PPPPPPPP/RNBQKBNR w KQkq - 0 1", "rnbqkbnr/pppppppp/8/8/8/8/PPPPPPPP/RNBQKBNR b KQkq - 0 1"},
		12: {"3qk2r/pppp1ppp/8/8/8/8/PPPP1PPP/3QK2R w Kk - 0 1", "3qk2r/pppp1ppp/8/8/8/8/PPPP1PPP/3QK2R b Kk - 0 1"},
		0:  {"4k3/pppp1ppp/8/8/8/8/PPPP1PPP/4K3 w - - 0 1", "4k3/pppp1ppp/8/8/8/8/PPPP1PPP/4K3 b - - 0 1"},
	}
	s := search.NewSearch()
	// the time ALLOTTED to a move is the budget plus what the search adds to it: the first search after a book move gets extra
	// time. To see it a real Search plays a real book move (from the start position, with one of the repository's books) and is
	// then started under clock control on a position outside the book, stopped at once, and asked what it was allowed to take.
	var s2 *search.Search
	start := position.NewPosition()
	outOfBook := map[string]string{ // the start position is in the book: a position with the same phase and mover that is not
		"rnbqkbnr/pppppppp/8/8/8/8/PPPPPPPP/RNBQKBNR w KQkq - 0 1": "rnbqkb1r/pppppppp/7n/8/8/7N/PPPPPPPP/RNBQKB1R w KQkq - 2 2",
	}
	if *bookDir != "" {
		config.Settings.Search.UseBook = true
		config.Settings.Search.BookPath = *bookDir
		config.Settings.Search.BookFile = "book_smalltest.txt"
		config.Settings.Search.BookFormat = "Simple"
		config.Settings.Search.TTSize = 4
		s2 = search.NewSearch()
	}
	allotted := func(fen string, sl *search.Limits) (time.Duration, error) {
		bl := search.NewSearchLimits() // the book is asked in time controlled searches only
		bl.TimeControl = true
		bl.WhiteTime, bl.BlackTime = time.Minute, time.Minute
		s2.StartSearch(*start, *bl)
		s2.WaitWhileSearching()
		if r := s2.LastSearchResult(); !r.BookMove {
			return 0, fmt.Errorf("the book gave no move for the start position")
		}
		if o, ok := outOfBook[fen]; ok {
			fen = o
		}
		q, _ := position.NewPositionFen(fen)
		s2.StartSearch(*q, *sl)
		s2.StopSearch()
		s2.WaitWhileSearching()
		if r := s2.LastSearchResult(); r.BookMove {
			return 0, fmt.Errorf("position %s is in the book", fen)
		}
		return s2.VerifAllotted(), nil
	}
	games := 0
	return readTagged(strings.Split(*inF, ","), "GRID", func(js string) error {
		var g struct {
			Time, Inc, MovesToGo, Phase, Stm, Opp int
		}
		if err := json.Unmarshal([]byte(js), &g); err != nil {
			return err
		}
		// the opponent's clock: the same, much more, or almost nothing
		oppClock := func(rem int) (int, int) {
			switch g.Opp {
			case 1:
				return 100*rem + 60000, 60000
			case 2:
				return 1, 0
			}
			return rem, g.Inc
		}
		p, _ := position.NewPositionFen(fens[g.Phase][g.Stm])
		if p == nil || p.GamePhase() != g.Phase {
			return fmt.Errorf("no position with phase %d", g.Phase)
		}
		fmt.Fprintf(w, "{\"ev\":\"start\",\"time\":%d,\"inc\":%d,\"movestogo\":%d,\"phase\":%d,\"stm\":%d,\"opp\":%d,\"rem\":0,\"b\":0}\n", g.Time, g.Inc, g.MovesToGo, g.Phase, g.Stm, g.Opp)
		rem := g.Time
		n := g.MovesToGo
		if n == 0 {
			n = 15
		}
		for k := 0; k < n; k++ {
			sl := search.NewSearchLimits()
			sl.TimeControl = true
			ot, oi := oppClock(rem)
			mine, theirs := &sl.WhiteTime, &sl.BlackTime
			mineInc, theirInc := &sl.WhiteInc, &sl.BlackInc
			if g.Stm == 1 {
				mine, theirs, mineInc, theirInc = theirs, mine, theirInc, mineInc
			}
			*mine = time.Duration(rem) * time.Millisecond
			*theirs = time.Duration(ot) * time.Millisecond
			*mineInc = time.Duration(g.Inc) * time.Millisecond
			*theirInc = time.Duration(oi) * time.Millisecond
			if g.MovesToGo > 0 {
				sl.MovesToGo = g.MovesToGo - k
			}
			var budget time.Duration
			if perr := guard(func() { budget = s.VerifSetupTimeControl(p, sl) }); perr != "" {
				return fmt.Errorf("time budget computation panicked: %s", perr)
			}
			b := int(budget.Microseconds() / 1000)
			if k == 0 && s2 != nil {
				games++
				if games%*extEvery == 0 {
					var a time.Duration
					var aerr error
					if perr := guard(func() { a, aerr = allotted(fens[g.Phase][g.Stm], sl) }); perr != "" {
						return fmt.Errorf("first search after a book move panicked: %s", perr)
					}
					if aerr != nil {
						return aerr
					}
					fmt.Fprintf(w, "{\"ev\":\"ext\",\"time\":0,\"inc\":%d,\"movestogo\":%d,\"phase\":%d,\"stm\":%d,\"opp\":%d,\"rem\":%d,\"b\":%d}\n", g.Inc, sl.MovesToGo, g.Phase, g.Stm, g.Opp, rem, int(a.Microseconds()/1000))
				}
			}
			fmt.Fprintf(w, "{\"ev\":\"move\",\"time\":0,\"inc\":%d,\"movestogo\":%d,\"phase\":%d,\"stm\":%d,\"opp\":%d,\"rem\":%d,\"b\":%d}\n", g.Inc, sl.MovesToGo, g.Phase, g.Stm, g.Opp, rem, b)
			if b > rem || rem-b+g.Inc < 0 {
				break // the game is lost on time: the rest of it says nothing
			}
			rem = rem - b + g.Inc
		}
		return nil
	})
}

// ------------------------------------------------------------------------------------ leaf-eval

// leafEval evaluates positions given as ndjson {"id":..,"pos":specpos} with a fresh position from
// FEN and a fresh evaluator and writes {"id":..,"v":value} (leaf values for SearchValue.tla).
func leafEval(args []string) error {
	fs := flag.NewFlagSet("leaf-eval", flag.ContinueOnError)
	inF := fs.String("in", "", "ndjson positions")
	outF := fs.String("out", "", "ndjson values")
	if err := fs.Parse(args); err != nil {
		return err
	}
	config.Settings.Search = defaultSearchCfg
	config.Settings.Eval = defaultEvalCfg
	in, err := os.Open(*inF)
	if err != nil {
		return err
	}
	defer in.Close()
	of, err := os.Create(*outF)
	if err != nil {
		return err
	}
	defer of.Close()
	w := bufio.NewWriter(of)
	defer w.Flush()
	sc := bufio.NewScanner(in)
	sc.Buffer(make([]byte, 1<<22), 1<<22)
	ev := evaluator.NewEvaluator()
	for sc.Scan() {
		var q struct {
			ID  json.RawMessage `json:"id"`
			Pos SpecPos         `json:"pos"`
		}
		if err := json.Unmarshal(sc.Bytes(), &q); err != nil {
			return err
		}
		p, perr := position.NewPositionFen(q.Pos.Fen())
		if perr != nil {
			return perr
		}
		fmt.Fprintf(w, "{\"id\":%s,\"v\":%d}\n", string(q.ID), int(ev.Evaluate(p)))
	}
	return sc.Err()
}
