package main

// material: replays the configurations enumerated by Material.tla - the engine's
// insufficient-material query against the specification's three-valued classification, and the
// evaluation of positions the engine classifies as insufficient (C10, C15).

import (
	"flag"
	"strings"

	"github.com/frankkopp/FrankyGo/internal/evaluator"
	"github.com/frankkopp/FrankyGo/internal/position"
)

func init() { register("material", materialCmd) }

func materialCmd(args []string) error {
	fs := flag.NewFlagSet("material", flag.ContinueOnError)
	obsF := fs.String("obs", "", "TLC output of Material.tla")
	outF := fs.String("out", "", "result json")
	if err := fs.Parse(args); err != nil {
		return err
	}
	c := &chessCtx{res: newResult("material"), props: map[string]bool{"C10": true}}
	classes := map[string]int64{}
	err := readObs(strings.Split(*obsF, ","), func(o *Obs) error {
		fen := o.Fen()
		p, perr := position.NewPositionFen(fen)
		if perr != nil || p == nil {
			c.disc("C16", "legal-fen-rejected", "fen-setup", nil, fen, nil)
			return nil
		}
		c.res.count("C10.configurations", 1)
		classes[o.Mat]++
		if o.Mat != "mating" || strings.Count(fen, "P")+strings.Count(fen, "p") == 0 {
			c.res.count("C10.nontrivial", 1)
		}
		c.material(o.Mat, fen, p, nil)
		var insuff bool
		guard(func() { insuff = p.HasInsufficientMaterial() })
		if insuff {
			c.res.count("C15.insufficient_positions", 1)
			var v int
			if e := guard(func() { v = int(evaluator.NewEvaluator().Evaluate(p)) }); e != "" {
				c.disc("C15", "evaluate-panic", "panic", nil, fen, e)
			} else if v != 0 {
				c.disc("C15", "insufficient-material-nonzero", "insufficient-nonzero", nil, fen, v)
			}
		}
		if o.Mat != "mating" {
			c.res.sample("C10", map[string]interface{}{"fen": fen, "class": o.Mat, "engine_says_insufficient": insuff})
		}
		return nil
	})
	if err != nil {
		return err
	}
	c.res.Extra["classes"] = classes
	return c.res.write(*outF)
}
