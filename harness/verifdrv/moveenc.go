package main

// move-enc: the packed move encoding against MoveEnc.tla (property C17, second half): for every
// field tuple enumerated by TLC the engine's accessors must return what was put, for boundary sort
// values on every tuple and for the whole value range on a sample; SetValue must leave the move
// part alone.

import (
	"encoding/json"
	"flag"
	"fmt"
	"strings"

	. "github.com/frankkopp/FrankyGo/internal/types"
)

func init() { register("move-enc", moveEnc) }

func moveEnc(args []string) error {
	fs := flag.NewFlagSet("move-enc", flag.ContinueOnError)
	obsF := fs.String("obs", "", "TLC output of MoveEnc.tla")
	full := fs.Int("full", 4096, "every full-range value sweep is done on every n-th tuple (65536/n tuples)")
	outF := fs.String("out", "", "result json")
	if err := fs.Parse(args); err != nil {
		return err
	}
	res := newResult("move-enc")
	boundary := []int{-15001, -15000, -10001, -10000, -9999, -1, 0, 1, 9999, 10000, 10001, 14999, 15000}
	n := 0
	err := readTagged(strings.Split(*obsF, ","), "MV", func(js string) error {
		var r struct {
			F, T, Ty, Pr int
			Uci          string
		}
		if err := json.Unmarshal([]byte(js), &r); err != nil {
			return err
		}
		n++
		res.count("C17.enc_tuples", 1)
		pt := PieceType(r.Pr + 2)
		tuple := fmt.Sprintf("from=%d to=%d type=%d promo=%d", r.F, r.T, r.Ty, r.Pr)
		bad := func(kind, sig string, detail interface{}) {
			if r.F == 0 && r.T == 0 && r.Ty == 0 && r.Pr == 1 {
				sig = "encoding/the-all-zero-tuple-is-MoveNone"
			}
			res.disc(Disc{Prop: "C17", Kind: kind, Sig: sig, Detail: map[string]interface{}{"tuple": tuple, "detail": detail}, Replay: mustJSON(r)})
		}
		check := func(m Move, v int, how string) {
			res.count("C17.enc_checks", 1)
			if int(m.From()) != r.F || int(m.To()) != r.T || int(m.MoveType()) != r.Ty || m.PromotionType() != pt {
				bad("field-lost", "encoding/fields/"+how, fmt.Sprintf("value %d: got from=%d to=%d type=%d promo=%d", v, m.From(), m.To(), m.MoveType(), m.PromotionType()))
			}
			if int(m.ValueOf()) != v {
				bad("value-lost", "encoding/value/"+how, fmt.Sprintf("stored %d read %d", v, m.ValueOf()))
			}
			if m.MoveOf() != CreateMove(Square(r.F), Square(r.T), MoveType(r.Ty), pt) {
				bad("move-part-changed", "encoding/moveof/"+how, v)
			}
		}
		base := CreateMove(Square(r.F), Square(r.T), MoveType(r.Ty), pt)
		if got := base.StringUci(); got != r.Uci && base != MoveNone {
			bad("uci-string", "encoding/uci", map[string]string{"engine": got, "spec": r.Uci})
		}
		values := boundary
		if n%*full == 1 {
			values = make([]int, 0, 30002)
			for v := -15001; v <= 15000; v++ {
				values = append(values, v)
			}
			res.count("C17.enc_full_range_tuples", 1)
		}
		for _, v := range values {
			if perr := guard(func() {
				check(CreateMoveValue(Square(r.F), Square(r.T), MoveType(r.Ty), pt, Value(v)), v, "create")
				m := base
				m.SetValue(Value(v))
				check(m, v, "setvalue")
				m2 := CreateMoveValue(Square(r.F), Square(r.T), MoveType(r.Ty), pt, Value(-v/2))
				m2.SetValue(Value(v))
				check(m2, v, "overwrite")
			}); perr != "" {
				bad("panic", "encoding/panic", perr)
				break
			}
		}
		if n%8191 == 1 {
			res.sample("C17", json.RawMessage(js))
		}
		return nil
	})
	if err != nil {
		return err
	}
	return res.write(*outF)
}
