package main

// chess-replay: replays the observation records of ChessGame.tla (game trees, random walks,
// do/undo behaviours) into the real engine and compares, per node, what each property names.
// Every expectation used here is read from the TLC output; the only chess knowledge in this
// file is syntactic (FEN rendering, move encoding).

import (
	"encoding/json"
	"flag"
	"fmt"
	"sort"
	"strings"

	"github.com/frankkopp/FrankyGo/internal/attacks"
	"github.com/frankkopp/FrankyGo/internal/config"
	"github.com/frankkopp/FrankyGo/internal/evaluator"
	"github.com/frankkopp/FrankyGo/internal/movegen"
	"github.com/frankkopp/FrankyGo/internal/position"
	. "github.com/frankkopp/FrankyGo/internal/types"
)

func init() { register("chess-replay", chessReplay) }

type chessCtx struct {
	res    *Result
	roots  []SpecPos
	props  map[string]bool
	mgHot  *movegen.Movegen // deliberately reused across all positions
	evHot  *evaluator.Evaluator
	levels map[[2]int]*levelStat // (root, depth) -> counts, for perft
	maxLvl map[int]int
	// C04 path independence
	identToKey map[string]keyRef
	keyToIdent map[uint64]keyRef
	perftMax   int
	// set by replay: some position on the path had a raw game-phase sum above GamePhaseMax
	phaseExceeded bool
	nq            map[int][2]int // per pseudo-legal move of the current node: non-quiet under switch off/on
	seen       map[string]bool
	onlyMoves  bool // artefact contains only Move operations (tree / walk)
	seed       int64
}

type keyRef struct {
	key   uint64
	ident string
	fen   string
	root  int
	path  []int
}

type levelStat struct {
	nodes, caps, eps, castles, promos, checks int64
	complete                                  bool
}

func chessReplay(args []string) error {
	fs := flag.NewFlagSet("chess-replay", flag.ContinueOnError)
	rootsF := fs.String("roots", "", "roots ndjson (same file TLC used)")
	obsF := fs.String("obs", "", "comma separated TLC output files")
	propsF := fs.String("props", "", "comma separated property ids to check")
	outF := fs.String("out", "", "result json")
	perftMax := fs.Int("perft", 0, "compare engine perft with the tree's level counts up to this depth (tree artefacts only)")
	seed := fs.Int64("seed", 1, "seed")
	thin := fs.Int("thin", 1, "use only every n-th node among those more than three plies from their root (long walks; expensive properties)")
	if err := fs.Parse(args); err != nil {
		return err
	}
	roots, err := readRoots(*rootsF)
	if err != nil {
		return err
	}
	c := &chessCtx{res: newResult("chess-replay"), roots: roots, props: map[string]bool{},
		mgHot: movegen.NewMoveGen(), evHot: evaluator.NewEvaluator(),
		levels: map[[2]int]*levelStat{}, maxLvl: map[int]int{},
		identToKey: map[string]keyRef{}, keyToIdent: map[uint64]keyRef{},
		perftMax: *perftMax, seen: map[string]bool{}, onlyMoves: true, seed: *seed}
	for _, p := range strings.Split(*propsF, ",") {
		if p != "" {
			c.props[p] = true
		}
	}
	nth := 0
	err = readObs(strings.Split(*obsF, ","), func(o *Obs) error {
		if *thin > 1 && len(o.Path) > 3 {
			nth++
			if nth%*thin != 0 {
				return nil
			}
		}
		c.node(o)
		return nil
	})
	if err != nil {
		return err
	}
	c.finish()
	return c.res.write(*outF)
}

func (c *chessCtx) disc(prop, kind, sig string, o *Obs, fen string, detail interface{}) {
	d := Disc{Prop: prop, Kind: kind, Sig: sig, Fen: fen, Detail: detail}
	if o != nil {
		d.Root = o.Root
		d.Path = o.Path
		if o.raw != "" && o.Root >= 1 && o.Root <= len(c.roots) {
			d.Replay = mustJSON(map[string]interface{}{"obs": json.RawMessage(o.raw), "root": c.roots[o.Root-1]})
		}
	}
	c.res.disc(d)
}

// seenNode de-duplicates nodes for the per-level counts (a walk artefact repeats tree nodes).
func (c *chessCtx) seenNode(o *Obs) bool {
	k := fmt.Sprint(o.Root, o.Path)
	if c.seen[k] {
		return true
	}
	c.seen[k] = true
	return false
}

// rawPhase is the unclamped sum of the published game-phase values of the pieces on the board.
func rawPhase(p *position.Position) int {
	n := 0
	for s := 0; s < 64; s++ {
		if pc := p.GetPiece(Square(s)); pc != PieceNone {
			n += pc.TypeOf().GamePhaseValue()
		}
	}
	return n
}

// driftSig names the one known family of game-phase discrepancies: the history of the position
// contains a moment with more than GamePhaseMax phase units on the board (extra queens or a
// promotion on a full board), and nothing but the game phase (and the evaluation that depends on
// it) differs. Anything else keeps the plain list of differing fields as its signature.
func (c *chessCtx) driftSig(names string) string {
	if c.phaseExceeded && (names == "gamePhase" || names == "evaluate,gamePhase") {
		return "gamePhase-drift/raw-sum-exceeded-24"
	}
	return names
}

// snapshot of every observable aspect of a position (property C03)
type snap struct {
	Fen      string
	Key      uint64
	Pieces   [2][7]uint64
	Occ      [2]uint64
	Kings    [2]int
	Mat      [2]int
	MatNP    [2]int
	PsqMid   [2]int
	PsqEnd   [2]int
	Phase    int
	Check    bool
	LastMove uint32
	LastCap  int
	Rep      [3]bool
	Eval     int
}

func takeSnap(p *position.Position, withEval bool) snap {
	var s snap
	s.Fen = p.StringFen()
	s.Key = uint64(p.ZobristKey())
	for col := White; col <= Black; col++ {
		for pt := King; pt <= Queen; pt++ {
			s.Pieces[col][pt] = uint64(p.PiecesBb(col, pt))
		}
		s.Occ[col] = uint64(p.OccupiedBb(col))
		s.Kings[col] = int(p.KingSquare(col))
		s.Mat[col] = int(p.Material(col))
		s.MatNP[col] = int(p.MaterialNonPawn(col))
		s.PsqMid[col] = int(p.PsqMidValue(col))
		s.PsqEnd[col] = int(p.PsqEndValue(col))
	}
	s.Phase = p.GamePhase()
	s.Check = p.HasCheck()
	s.LastMove = uint32(p.LastMove())
	s.LastCap = int(p.LastCapturedPiece())
	for n := 1; n <= 3; n++ {
		s.Rep[n-1] = p.CheckRepetitions(n)
	}
	if withEval {
		s.Eval = int(evaluator.NewEvaluator().Evaluate(p))
	}
	return s
}

func snapDiff(a, b snap) []string {
	var d []string
	add := func(name string, x, y interface{}) {
		d = append(d, fmt.Sprintf("%s: %v -> %v", name, x, y))
	}
	if a.Fen != b.Fen {
		add("fen", a.Fen, b.Fen)
	}
	if a.Key != b.Key {
		add("key", a.Key, b.Key)
	}
	if a.Pieces != b.Pieces {
		add("pieceBitboards", a.Pieces, b.Pieces)
	}
	if a.Occ != b.Occ {
		add("occupancy", a.Occ, b.Occ)
	}
	if a.Kings != b.Kings {
		add("kingSquares", a.Kings, b.Kings)
	}
	if a.Mat != b.Mat {
		add("material", a.Mat, b.Mat)
	}
	if a.MatNP != b.MatNP {
		add("materialNonPawn", a.MatNP, b.MatNP)
	}
	if a.PsqMid != b.PsqMid {
		add("psqMid", a.PsqMid, b.PsqMid)
	}
	if a.PsqEnd != b.PsqEnd {
		add("psqEnd", a.PsqEnd, b.PsqEnd)
	}
	if a.Phase != b.Phase {
		add("gamePhase", a.Phase, b.Phase)
	}
	if a.Check != b.Check {
		add("hasCheck", a.Check, b.Check)
	}
	if a.LastMove != b.LastMove {
		add("lastMove", a.LastMove, b.LastMove)
	}
	if a.LastCap != b.LastCap {
		add("lastCaptured", a.LastCap, b.LastCap)
	}
	if a.Rep != b.Rep {
		add("repetitions", a.Rep, b.Rep)
	}
	if a.Eval != b.Eval {
		add("evaluate", a.Eval, b.Eval)
	}
	return d
}

// fields names only (for signatures)
func diffNames(d []string) string {
	var n []string
	for _, x := range d {
		n = append(n, strings.SplitN(x, ":", 2)[0])
	}
	sort.Strings(n)
	return strings.Join(n, ",")
}

// replay plays the path of o on a fresh position built from the root FEN. When c03 is set it keeps
// a snapshot per stack level and reports the comparison for the final undo.
func (c *chessCtx) replay(o *Obs, c03 bool) (p *position.Position, perr string) {
	rootFen := c.roots[o.Root-1].Fen()
	var stack []snap
	var wantBefore *snap
	c.phaseExceeded = false
	// only the snapshot that the final undo is compared with is needed: find the step that pushes it
	needPush := -1
	if c03 && len(o.Path) > 0 && o.Path[len(o.Path)-1] < 0 && o.Path[len(o.Path)-1] != -2 {
		var idx []int
		for i, op := range o.Path {
			if op >= 0 || op == -2 {
				idx = append(idx, i)
			} else if len(idx) > 0 {
				if i == len(o.Path)-1 {
					needPush = idx[len(idx)-1]
				}
				idx = idx[:len(idx)-1]
			}
		}
	}
	perr = guard(func() {
		p, _ = position.NewPositionFen(rootFen)
		if p == nil {
			panic("root FEN rejected by the engine: " + rootFen)
		}
		if rawPhase(p) > GamePhaseMax {
			c.phaseExceeded = true
		}
		for i, op := range o.Path {
			last := i == len(o.Path)-1
			switch {
			case op >= 0:
				if c03 {
					if i == needPush {
						stack = append(stack, takeSnap(p, true))
					} else {
						stack = append(stack, snap{})
					}
				}
				p.DoMove(engineMove(op, o.Kinds[i][0]))
			case op == -2:
				if c03 {
					if i == needPush {
						stack = append(stack, takeSnap(p, true))
					} else {
						stack = append(stack, snap{})
					}
				}
				p.DoNullMove()
			case op == -1 || op == -3:
				if op == -1 {
					p.UndoMove()
				} else {
					p.UndoNullMove()
				}
				if c03 {
					before := stack[len(stack)-1]
					stack = stack[:len(stack)-1]
					if last {
						c.res.count("C03.undo_compared", 1)
						wb := before
						wantBefore = &wb
						after := takeSnap(p, true)
						if d := snapDiff(before, after); len(d) > 0 {
							kind := "undo-restores"
							if op == -3 {
								kind = "undonull-restores"
							}
							c.disc("C03", kind, c.driftSig(diffNames(d)), o, before.Fen, d)
						}
					}
				}
			}
			if !c.phaseExceeded && rawPhase(p) > GamePhaseMax {
				c.phaseExceeded = true
			}
		}
	})
	// The same history once more with the queries the other way round: nothing is asked of the position before the move
	// (so nothing is cached there), everything is asked of the position after it, and only then it is undone. What the
	// restored position answers must be what the first pass recorded before the move.
	if perr == "" && c03 && needPush >= 0 && wantBefore != nil {
		perr2 := guard(func() {
			q, _ := position.NewPositionFen(rootFen)
			n := len(o.Path)
			for i, op := range o.Path[:n-1] {
				switch {
				case op >= 0:
					q.DoMove(engineMove(op, o.Kinds[i][0]))
				case op == -2:
					q.DoNullMove()
				case op == -1:
					q.UndoMove()
				case op == -3:
					q.UndoNullMove()
				}
			}
			_ = takeSnap(q, true) // the child is asked everything
			kind := "undo-restores"
			if o.Path[n-1] == -1 {
				q.UndoMove()
			} else {
				q.UndoNullMove()
				kind = "undonull-restores"
			}
			c.res.count("C03.undo_compared_child_queried_first", 1)
			after := takeSnap(q, true)
			if d := snapDiff(*wantBefore, after); len(d) > 0 {
				sig := c.driftSig(diffNames(d))
				if !strings.HasPrefix(sig, "gamePhase-drift/") {
					sig += "/only-the-child-was-queried"
				}
				c.disc("C03", kind, sig, o, wantBefore.Fen, d)
			}
		})
		if perr2 != "" {
			perr = perr2
		}
	}
	if perr == "" && ((c03 && needPush >= 0 && wantBefore != nil) || (c.props["C09"] && len(o.Path) > 0 && o.Path[len(o.Path)-1] < 0)) {
		// ... and a third time with the check query asked of EVERY position on the way (so that every history entry is
		// written with a cached answer in it): what an undo restores must not be what an earlier position at the same
		// depth of the history left behind
		perr3 := guard(func() {
			q, _ := position.NewPositionFen(rootFen)
			for i, op := range o.Path {
				_ = q.HasCheck()
				switch {
				case op >= 0:
					q.DoMove(engineMove(op, o.Kinds[i][0]))
				case op == -2:
					q.DoNullMove()
				case op == -1:
					q.UndoMove()
				case op == -3:
					q.UndoNullMove()
				}
			}
			if c.props["C09"] {
				// the cached answer of the position reached through this history against the board itself
				c.res.count("C09.has_check_after_history", 1)
				if got, want := q.HasCheck(), q.IsAttacked(q.KingSquare(q.NextPlayer()), q.NextPlayer().Flip()); got != want {
					c.disc("C09", "has-check", "has-check/every-position-was-queried", o, q.StringFen(), map[string]bool{"HasCheck": got, "king_attacked": want})
				}
			}
			if !(c03 && needPush >= 0 && wantBefore != nil) {
				return
			}
			c.res.count("C03.undo_compared_every_position_queried", 1)
			after := takeSnap(q, true)
			if d := snapDiff(*wantBefore, after); len(d) > 0 {
				sig := c.driftSig(diffNames(d))
				if !strings.HasPrefix(sig, "gamePhase-drift/") {
					sig += "/every-position-was-queried"
				}
				kind := "undo-restores"
				if o.Path[len(o.Path)-1] == -3 {
					kind = "undonull-restores"
				}
				c.disc("C03", kind, sig, o, wantBefore.Fen, d)
			}
		})
		if perr3 != "" {
			perr = perr3
		}
	}
	return p, perr
}

func intsOfMoves(ml []Move) []int {
	r := make([]int, 0, len(ml))
	for _, m := range ml {
		r = append(r, specMove(m))
	}
	sort.Ints(r)
	return r
}

// multiset comparison: returns missing, extra, duplicated (all in spec encoding)
func cmpMoveSets(got []int, want []int) (missing, extra, dup []int) {
	w := map[int]bool{}
	for _, m := range want {
		w[m] = true
	}
	g := map[int]int{}
	for _, m := range got {
		g[m]++
	}
	for _, m := range want {
		if g[m] == 0 {
			missing = append(missing, m)
		}
	}
	for m, n := range g {
		if !w[m] {
			extra = append(extra, m)
		}
		if n > 1 {
			dup = append(dup, m)
		}
	}
	sort.Ints(extra)
	sort.Ints(dup)
	return
}

func uciList(ms []int) []string {
	r := []string{}
	for _, m := range ms {
		r = append(r, mvUci(m))
	}
	return r
}

func setDetail(missing, extra, dup []int) map[string][]string {
	return map[string][]string{"missing": uciList(missing), "extra": uciList(extra), "repeated": uciList(dup)}
}

func sortedCopy(a []int) []int {
	b := append([]int{}, a...)
	sort.Ints(b)
	return b
}

func (c *chessCtx) node(o *Obs) {
	res := c.res
	res.count("nodes", 1)
	nodeFen := o.Fen()
	isMoveOnly := true
	for _, op := range o.Path {
		if op < 0 {
			isMoveOnly = false
			c.onlyMoves = false
		}
	}
	// level statistics for perft (tree artefacts)
	if isMoveOnly && len(o.Path) <= c.perftMax && !c.seenNode(o) {
		d := len(o.Path)
		ls := c.levels[[2]int{o.Root, d}]
		if ls == nil {
			ls = &levelStat{}
			c.levels[[2]int{o.Root, d}] = ls
		}
		ls.nodes++
		if d > 0 {
			k := o.Kinds[d-1]
			if k[1] != 0 {
				ls.caps++
			}
			if k[0] == 2 {
				ls.eps++
			}
			if k[0] == 3 {
				ls.castles++
			}
			if k[0] == 1 {
				ls.promos++
			}
			if o.InCheck {
				ls.checks++
			}
		}
		if d > c.maxLvl[o.Root] {
			c.maxLvl[o.Root] = d
		}
	}

	var pFen *position.Position
	if e := guard(func() {
		var err error
		pFen, err = position.NewPositionFen(nodeFen)
		if err != nil {
			panic("FEN of a legal position rejected: " + err.Error())
		}
	}); e != "" {
		c.disc("C16", "legal-fen-rejected", "fen-setup", o, nodeFen, e)
		return
	}
	if c.props["C16"] {
		// every legal position's FEN round-trips exactly
		c.res.count("C16.legal_fens", 1)
		if got := pFen.StringFen(); got != nodeFen {
			c.disc("C16", "legal-fen-roundtrip", "fen/legal-roundtrip", o, nodeFen, map[string]string{"output": got})
		}
	}
	pPath, perr := c.replay(o, c.props["C03"])
	if perr != "" {
		for pr := range c.props {
			c.disc(pr, "replay-panic", "replay-panic", o, nodeFen, perr)
		}
		return
	}

	if c.props["C01"] {
		c.checkC01(o, nodeFen, pFen, pPath)
	}
	if c.props["C02"] {
		c.checkC02(o, nodeFen, pFen, pPath)
	}
	if c.props["C03"] {
		// engine against spec after every step of a do/undo behaviour
		res.count("C03.steps", 1)
		if got := pPath.StringFen(); got != nodeFen {
			c.disc("C03", "fen-after-step", "fen", o, nodeFen, map[string]string{"engine": got, "spec": nodeFen})
		}
		if len(o.Path) > 0 && o.Path[len(o.Path)-1] < 0 {
			res.count("C03.nontrivial", 1)
		}
	}
	if c.props["C04"] {
		c.checkC04(o, nodeFen, pFen, pPath)
	}
	if c.props["C08"] && len(o.Pseudo) > 0 {
		c.checkC08(o, nodeFen, pFen, pPath)
	}
	if c.props["C09"] {
		c.checkC09(o, nodeFen, pFen, pPath)
	}
	if c.props["C10"] {
		c.checkC10(o, nodeFen, pFen, pPath)
	}
	if c.props["C15"] {
		c.checkC15(o, nodeFen, pFen, pPath)
	}
	if c.props["C17"] {
		c.checkC17(o, nodeFen, pFen, pPath)
	}
}

// ------------------------------------------------------------------------------------- C01

func (c *chessCtx) checkC01(o *Obs, fen string, pFen, pPath *position.Position) {
	want := o.Legal
	type variant struct {
		name string
		p    *position.Position
		mg   *movegen.Movegen
	}
	vs := []variant{{"fen/fresh-generator", pFen, movegen.NewMoveGen()}, {"path/reused-generator", pPath, c.mgHot}}
	for _, v := range vs {
		var got []int
		if e := guard(func() { got = intsOfMoves(*v.mg.GenerateLegalMoves(v.p, movegen.GenAll)) }); e != "" {
			c.disc("C01", "legal-moves-panic", "panic", o, fen, e)
			continue
		}
		c.res.count("C01.legal_sets_compared", 1)
		missing, extra, dup := cmpMoveSets(got, want)
		if len(missing)+len(extra)+len(dup) > 0 {
			sig := "legal-set"
			c.disc("C01", "legal-set/"+v.name, sig, o, fen, setDetail(missing, extra, dup))
		}
	}
	nontrivial := o.InCheck || o.Ep >= 0 || len(o.Cr) > 0
	for _, m := range want {
		if mvPromo(m) != 0 {
			nontrivial = true
		}
	}
	if nontrivial {
		c.res.count("C01.nontrivial", 1)
	}
	if len(c.res.Samples["C01"]) < 3 && len(o.Path) > 0 {
		c.res.sample("C01", map[string]interface{}{"fen": fen, "root": o.Root, "path": uciList(o.Path), "legal_expected": uciList(sortedCopy(want))})
	}
}

// ------------------------------------------------------------------------------------- C02

func (c *chessCtx) checkC02(o *Obs, fen string, pFen, pPath *position.Position) {
	if len(o.Path) == 0 || o.Path[len(o.Path)-1] < 0 {
		// roots: the FEN round trip of the root itself
		if got := pPath.StringFen(); got != fen {
			c.disc("C02", "root-fen", "root-fen", o, fen, map[string]string{"engine": got, "spec": fen})
		}
		return
	}
	c.res.count("C02.edges", 1)
	last := len(o.Path) - 1
	m, kind, capt := o.Path[last], o.Kinds[last][0], o.Kinds[last][1]
	if kind != 0 || capt != 0 || len(o.Path) > 20 {
		c.res.count("C02.nontrivial", 1)
	}
	var bad []string
	if got := pPath.StringFen(); got != fen {
		bad = append(bad, "fen: engine "+got+" spec "+fen)
	}
	for s := 0; s < 64; s++ {
		if int(pPath.GetPiece(Square(s))) != o.Board[s] {
			bad = append(bad, fmt.Sprintf("piece on %s: engine %d spec %d", sqName(s), pPath.GetPiece(Square(s)), o.Board[s]))
		}
	}
	if int(pPath.CastlingRights()) != o.crBits() {
		bad = append(bad, fmt.Sprintf("castling rights: engine %d spec %d", pPath.CastlingRights(), o.crBits()))
	}
	ep := int(pPath.GetEnPassantSquare())
	if ep == 64 {
		ep = -1
	}
	if ep != o.Ep {
		bad = append(bad, fmt.Sprintf("en passant square: engine %d spec %d", ep, o.Ep))
	}
	if pPath.HalfMoveClock() != o.Hmc {
		bad = append(bad, fmt.Sprintf("half move clock: engine %d spec %d", pPath.HalfMoveClock(), o.Hmc))
	}
	if int(pPath.NextPlayer()) != o.Stm {
		bad = append(bad, fmt.Sprintf("side to move: engine %d spec %d", pPath.NextPlayer(), o.Stm))
	}
	if pPath.LastMove().MoveOf() != engineMove(m, kind) {
		bad = append(bad, fmt.Sprintf("last move: engine %s spec %s", pPath.LastMove().StringUci(), mvUci(m)))
	}
	// the engine records the occupant of the target square; for en passant that is empty
	wantCap := capt
	if kind == 2 {
		wantCap = 0
	}
	if int(pPath.LastCapturedPiece()) != wantCap {
		bad = append(bad, fmt.Sprintf("last captured piece: engine %d spec %d", pPath.LastCapturedPiece(), wantCap))
	}
	if len(bad) > 0 {
		c.disc("C02", "successor", strings.SplitN(bad[0], ":", 2)[0], o, fen, bad)
	}
	if len(c.res.Samples["C02"]) < 3 && kind != 0 {
		c.res.sample("C02", map[string]interface{}{"root": o.Root, "path": uciList(o.Path), "expected_fen": fen})
	}
}

// ------------------------------------------------------------------------------------- C04

func sums(p *position.Position) (mat, matNP, mid, end [2]int, phase int) {
	for s := 0; s < 64; s++ {
		pc := p.GetPiece(Square(s))
		if pc == PieceNone {
			continue
		}
		col := pc.ColorOf()
		mat[col] += int(pc.ValueOf())
		// "non-pawn material" counts the officers (knight, bishop, rook, queen)
		if pc.TypeOf() != Pawn && pc.TypeOf() != King {
			matNP[col] += int(pc.ValueOf())
		}
		mid[col] += int(PosMidValue(pc, Square(s)))
		end[col] += int(PosEndValue(pc, Square(s)))
		phase += pc.TypeOf().GamePhaseValue()
	}
	if phase > GamePhaseMax {
		phase = GamePhaseMax
	}
	return
}

func (c *chessCtx) checkC04(o *Obs, fen string, pFen, pPath *position.Position) {
	c.res.count("C04.nodes", 1)
	if len(o.Path) > 0 {
		c.res.count("C04.nontrivial", 1)
	}
	// (a) incremental (path-built) against fresh from the engine's own FEN output
	var pFresh *position.Position
	if e := guard(func() { pFresh, _ = position.NewPositionFen(pPath.StringFen()) }); e != "" || pFresh == nil {
		c.disc("C04", "own-fen-rejected", "own-fen", o, fen, e)
		return
	}
	a, b := takeSnap(pPath, false), takeSnap(pFresh, false)
	// history-dependent observables are not part of this comparison
	a.LastMove, b.LastMove, a.LastCap, b.LastCap = 0, 0, 0, 0
	a.Rep, b.Rep = [3]bool{}, [3]bool{}
	if d := snapDiff(b, a); len(d) > 0 {
		c.disc("C04", "incremental-vs-fresh", c.driftSig(diffNames(d)), o, fen, d)
	}
	// (b) totals against sums of the published per-piece values
	for _, v := range []struct {
		n string
		p *position.Position
	}{{"path", pPath}, {"fen", pFen}} {
		mat, matNP, mid, end, phase := sums(v.p)
		var bad []string
		for col := White; col <= Black; col++ {
			if int(v.p.Material(col)) != mat[col] {
				bad = append(bad, fmt.Sprintf("material[%d]: engine %d sum %d", col, v.p.Material(col), mat[col]))
			}
			if int(v.p.MaterialNonPawn(col)) != matNP[col] {
				bad = append(bad, fmt.Sprintf("materialNonPawn[%d]: engine %d sum %d", col, v.p.MaterialNonPawn(col), matNP[col]))
			}
			if int(v.p.PsqMidValue(col)) != mid[col] {
				bad = append(bad, fmt.Sprintf("psqMid[%d]: engine %d sum %d", col, v.p.PsqMidValue(col), mid[col]))
			}
			if int(v.p.PsqEndValue(col)) != end[col] {
				bad = append(bad, fmt.Sprintf("psqEnd[%d]: engine %d sum %d", col, v.p.PsqEndValue(col), end[col]))
			}
		}
		if v.p.GamePhase() != phase {
			bad = append(bad, fmt.Sprintf("gamePhase: engine %d min(max,sum) %d", v.p.GamePhase(), phase))
		}
		if len(bad) > 0 {
			sig := strings.SplitN(strings.SplitN(bad[0], "[", 2)[0], ":", 2)[0]
			if len(bad) == 1 {
				sig = c.driftSig(sig)
			}
			c.disc("C04", "totals-vs-sums/"+v.n, sig, o, fen, bad)
		}
	}
	// (c) key is a function of the identity: equal inside a group, different across groups
	ident := o.identKey()
	for _, v := range []struct {
		n string
		p *position.Position
	}{{"path", pPath}, {"fen", pFen}} {
		k := uint64(v.p.ZobristKey())
		if ref, ok := c.identToKey[ident]; ok {
			c.res.count("C04.transpositions", 1)
			if ref.key != k {
				sig := "same-position-different-key"
				if o.Ep >= 0 {
					sig += "/ep-set"
				}
				c.disc("C04", "key-not-function-of-position/"+v.n, sig, o, fen,
					map[string]interface{}{"key": k, "other_key": ref.key, "other_fen": ref.fen, "other_root": ref.root, "other_path": ref.path})
			}
		} else {
			c.identToKey[ident] = keyRef{k, ident, fen, o.Root, o.Path}
		}
		if ref, ok := c.keyToIdent[k]; ok {
			if ref.ident != ident {
				c.disc("C04", "different-positions-same-key/"+v.n, "key-collision", o, fen,
					map[string]interface{}{"key": k, "other_fen": ref.fen})
			}
		} else {
			c.keyToIdent[k] = keyRef{k, ident, fen, o.Root, o.Path}
		}
	}
	// (d) relatives that differ from the position in exactly ONE component - the en-passant square cleared, one castling right
	// given up, the other side to move, one piece taken off the board - are different positions: each must have a different
	// key (a component whose random number is zero, or shared with another one, shows here and nowhere else: incremental and
	// fresh keys agree, and the game tree hardly ever contains both members of such a pair). Variants that are not
	// well-formed positions any more (the engine refuses them) are skipped.
	k0 := uint64(pFen.ZobristKey())
	seen := map[uint64]string{k0: fen}
	for _, v := range fenRelatives(fen, len(o.Path) == 0 || c.res.Counters["C04.nodes"]%16 == 0) {
		var q *position.Position
		if e := guard(func() { q, _ = position.NewPositionFen(v) }); e != "" || q == nil {
			continue
		}
		c.res.count("C04.relatives", 1)
		kv := uint64(q.ZobristKey())
		if other, ok := seen[kv]; ok {
			f := strings.Fields(v)
			g := strings.Fields(other)
			what := "piece"
			switch {
			case f[3] != g[3]:
				what = "en-passant-file-" + string(strings.Trim(f[3]+g[3], "-")[0])
			case f[2] != g[2]:
				what = "castling"
			case f[1] != g[1]:
				what = "side-to-move"
			}
			c.disc("C04", "different-positions-same-key/relative", "key-collision/"+what, o, fen, map[string]interface{}{"key": kv, "relative": v, "other_fen": other})
		} else {
			seen[kv] = v
		}
	}
	if len(c.res.Samples["C04"]) < 3 && len(o.Path) > 1 {
		c.res.sample("C04", map[string]interface{}{"root": o.Root, "path": uciList(o.Path), "fen": fen, "key": uint64(pPath.ZobristKey())})
	}
}

// fenRelatives: FENs that differ from the given one in exactly one component (see checkC04 (d))
func fenRelatives(fen string, pieces bool) []string {
	f := strings.Fields(fen)
	if len(f) != 6 {
		return nil
	}
	join := func(g []string) string { return strings.Join(g, " ") }
	var out []string
	if f[3] != "-" {
		g := append([]string{}, f...)
		g[3] = "-"
		out = append(out, join(g))
	}
	if f[2] != "-" {
		for i := range f[2] {
			g := append([]string{}, f...)
			g[2] = f[2][:i] + f[2][i+1:]
			if g[2] == "" {
				g[2] = "-"
			}
			out = append(out, join(g))
		}
	}
	{
		g := append([]string{}, f...)
		g[3] = "-"
		if f[1] == "w" {
			g[1] = "b"
		} else {
			g[1] = "w"
		}
		out = append(out, join(g))
	}
	if pieces {
		// the placement as 64 characters, '1' = empty
		var cells []byte
		for _, ch := range []byte(f[0]) {
			switch {
			case ch >= '1' && ch <= '8':
				for n := byte('0'); n < ch; n++ {
					cells = append(cells, '1')
				}
			case ch != '/':
				cells = append(cells, ch)
			}
		}
		if len(cells) == 64 {
			for i, ch := range cells {
				if ch == '1' || ch == 'k' || ch == 'K' {
					continue
				}
				var sb strings.Builder
				run := 0
				for j, cj := range cells {
					if j == i {
						cj = '1'
					}
					if cj == '1' {
						run++
					} else {
						if run > 0 {
							sb.WriteByte(byte('0' + run))
							run = 0
						}
						sb.WriteByte(cj)
					}
					if j%8 == 7 {
						if run > 0 {
							sb.WriteByte(byte('0' + run))
							run = 0
						}
						if j != 63 {
							sb.WriteByte('/')
						}
					}
				}
				g := append([]string{}, f...)
				g[0], g[3] = sb.String(), "-"
				out = append(out, join(g))
			}
		}
	}
	return out
}

// ------------------------------------------------------------------------------------- C08

func (c *chessCtx) checkC08(o *Obs, fen string, pFen, pPath *position.Position) {
	c.res.count("C08.nodes", 1)
	all := []int{}
	kindOf := map[int]int{}
	c.nq = map[int][2]int{}
	b2i := func(b bool) int {
		if b {
			return 1
		}
		return 0
	}
	for _, pr := range o.Pseudo {
		all = append(all, pr.M)
		kindOf[pr.M] = pr.K
		c.nq[pr.M] = [2]int{b2i(pr.Nq0), b2i(pr.Nq1)}
	}
	legal := map[int]bool{}
	for _, m := range o.Legal {
		legal[m] = true
	}
	saved := config.Settings.Search.UsePromNonQuiet
	defer func() { config.Settings.Search.UsePromNonQuiet = saved }()
	for _, pnq := range []bool{true, false} {
		config.Settings.Search.UsePromNonQuiet = pnq
		class := func(nonquiet bool) []int {
			var r []int
			for _, pr := range o.Pseudo {
				nq := pr.Nq0
				if pnq {
					nq = pr.Nq1
				}
				if nq == nonquiet {
					r = append(r, pr.M)
				}
			}
			return r
		}
		modes := []struct {
			name string
			mode movegen.GenMode
			want []int
		}{{"all", movegen.GenAll, all}, {"nonquiet", movegen.GenNonQuiet, class(true)}, {"quiet", movegen.GenQuiet, class(false)}}
		for _, md := range modes {
			tag := fmt.Sprintf("%s/promNonQuiet=%v", md.name, pnq)
			// batch generator, fresh and reused
			for gi, mg := range []*movegen.Movegen{movegen.NewMoveGen(), c.mgHot} {
				var got []int
				if e := guard(func() { got = intsOfMoves(*mg.GeneratePseudoLegalMoves(pFen, md.mode, false)) }); e != "" {
					c.disc("C08", "batch-panic", "panic", o, fen, e)
					continue
				}
				c.res.count("C08.sets_compared", 1)
				if mi, ex, du := cmpMoveSets(got, md.want); len(mi)+len(ex)+len(du) > 0 {
					c.disc("C08", fmt.Sprintf("batch-vs-rules/%s/gen%d", tag, gi), "batch/"+md.name, o, fen, setDetail(mi, ex, du))
				}
			}
			// phased generator under several ordering states
			c.phased(o, fen, pFen, md.mode, tag, md.name, md.want, kindOf, false)
			c.phased(o, fen, pPath, md.mode, tag, md.name, md.want, kindOf, false)
			// evasion mode when in check
			if o.InCheck {
				c.evasion(o, fen, pFen, md.mode, tag, md.name, md.want, legal)
				c.phased(o, fen, pFen, md.mode, tag, md.name, md.want, kindOf, true)
			}
		}
	}
	// has-legal-move
	for gi, mg := range []*movegen.Movegen{movegen.NewMoveGen(), c.mgHot} {
		var got bool
		if e := guard(func() { got = mg.HasLegalMove(pFen) }); e != "" {
			c.disc("C08", "haslegalmove-panic", "panic", o, fen, e)
			continue
		}
		c.res.count("C08.haslegal_compared", 1)
		if got != (len(o.Legal) > 0) {
			sig := "has-legal-move"
			onlyPromo := len(o.Legal) > 0
			for _, m := range o.Legal {
				if mvPromo(m) == 0 {
					onlyPromo = false
				}
			}
			if onlyPromo {
				sig += "/only-promotions-legal"
			}
			c.disc("C08", fmt.Sprintf("has-legal-move/gen%d", gi), sig, o, fen, map[string]interface{}{"engine": got, "legal": uciList(o.Legal)})
		}
	}
	if o.InCheck || len(o.Legal) != len(o.Pseudo) {
		c.res.count("C08.nontrivial", 1)
	}
	if len(c.res.Samples["C08"]) < 3 && o.InCheck {
		c.res.sample("C08", map[string]interface{}{"fen": fen, "pseudo_expected": uciList(sortedCopy(all)), "in_check": true})
	}
}

// drain runs the phased generator to exhaustion (bounded) and returns the sequence.
func drain(mg *movegen.Movegen, p *position.Position, mode movegen.GenMode, evasion bool) (seq []Move, perr string) {
	perr = guard(func() {
		for i := 0; i < 600; i++ {
			m := mg.GetNextMove(p, mode, evasion)
			if m == MoveNone {
				return
			}
			seq = append(seq, m)
		}
		panic("phased generator did not terminate within 600 moves")
	})
	return
}

func (c *chessCtx) phased(o *Obs, fen string, p *position.Position, mode movegen.GenMode, tag, mname string, want []int, kindOf map[int]int, evasion bool) {
	if evasion {
		// the evasion variant is compared in evasion(); here only the PV/killer states of normal mode
		return
	}
	type ordering struct {
		name    string
		pv      int // spec move or -1
		killers []Move
	}
	ords := []ordering{{"plain", -1, nil}}
	// PV = one move of every class of the mode's own set (class = move kind, quiet/non-quiet
	// under both switch settings, piece type of the mover); which member is seeded
	classSeen := map[[5]int]bool{}
	rot := 0
	if len(want) > 0 {
		rot = int(c.seed+int64(len(o.Path))+int64(o.Root)) % len(want)
	}
	for j := 0; j < len(want); j++ {
		m := want[(j+rot)%len(want)]
		key := [5]int{kindOf[m], c.nq[m][0], c.nq[m][1], o.Board[mvFrom(m)] % 8, 0}
		if o.Board[mvTo(m)] != 0 {
			key[4] = 1
		}
		if !classSeen[key] {
			classSeen[key] = true
			ords = append(ords, ordering{"pv", m, nil})
		}
	}
	if len(want) >= 2 {
		k1 := engineMove(want[0], kindOf[want[0]])
		k2 := engineMove(want[len(want)-1], kindOf[want[len(want)-1]])
		foreign := CreateMove(SqA1, SqH8, Normal, PtNone) // a killer from another position
		ords = append(ords, ordering{"killers-own", -1, []Move{k1, k2}})
		ords = append(ords, ordering{"killers-foreign+pv", want[len(want)/2], []Move{foreign, k1}})
	}
	for oi, od := range ords {
		for variant := 0; variant < 2; variant++ {
			// plain and killer orderings run on a fresh and on a reused generator; PV orderings alternate
			if od.name == "pv" && variant != oi%2 {
				continue
			}
			var mg *movegen.Movegen
			if variant == 0 {
				mg = movegen.NewMoveGen()
			} else {
				// reuse: same generator as before on this position, after ResetOnDemand
				mg = c.mgHot
				mg.ResetOnDemand()
				ks := mg.KillerMoves()
				ks[0], ks[1] = MoveNone, MoveNone
			}
			if od.pv >= 0 {
				mg.SetPvMove(engineMove(od.pv, kindOf[od.pv]))
			}
			for _, k := range od.killers {
				mg.StoreKiller(k)
			}
			seq, perr := drain(mg, p, mode, false)
			if perr != "" {
				c.disc("C08", "phased-panic", "panic", o, fen, perr)
				continue
			}
			c.res.count("C08.phased_runs", 1)
			got := intsOfMoves(seq)
			if mi, ex, du := cmpMoveSets(got, want); len(mi)+len(ex)+len(du) > 0 {
				sig := "phased/" + mname + "/" + od.name
				if len(mi) == 1 && od.pv == mi[0] && len(ex)+len(du) == 0 {
					sig += "/pv-move-dropped"
				}
				d := setDetail(mi, ex, du)
				if od.pv >= 0 {
					d["pv"] = []string{mvUci(od.pv)}
				}
				c.disc("C08", "phased-vs-rules/"+tag+"/"+od.name, sig, o, fen, d)
			} else if od.pv >= 0 && len(seq) > 0 && specMove(seq[0]) != od.pv {
				c.disc("C08", "pv-not-first/"+tag, "pv-not-first/"+mname, o, fen,
					map[string]string{"pv": mvUci(od.pv), "first": mvUci(specMove(seq[0]))})
			}
			// reuse on a different position without reset: next call must notice the new position
			if variant == 1 && od.name == "plain" {
				other := c.roots[(o.Root)%len(c.roots)]
				op, _ := position.NewPositionFen(other.Fen())
				if op != nil && op.ZobristKey() != p.ZobristKey() {
					mg.GetNextMove(op, movegen.GenAll, false) // leave the generator mid-way on another position
					seq2, perr2 := drain(mg, p, mode, false)
					if perr2 != "" {
						c.disc("C08", "phased-panic", "panic", o, fen, perr2)
					} else if mi, ex, du := cmpMoveSets(intsOfMoves(seq2), want); len(mi)+len(ex)+len(du) > 0 {
						c.disc("C08", "phased-after-other-position/"+tag, "phased-reuse/"+mname, o, fen, setDetail(mi, ex, du))
					}
				}
			}
		}
	}
}

func (c *chessCtx) evasion(o *Obs, fen string, p *position.Position, mode movegen.GenMode, tag, mname string, want []int, legal map[int]bool) {
	wantSet := map[int]bool{}
	for _, m := range want {
		wantSet[m] = true
	}
	check := func(name string, got []int) {
		c.res.count("C08.evasion_sets", 1)
		seen := map[int]int{}
		var notPseudo, dup, lostLegal []int
		for _, m := range got {
			seen[m]++
			if !wantSet[m] {
				notPseudo = append(notPseudo, m)
			}
		}
		for m, n := range seen {
			if n > 1 {
				dup = append(dup, m)
			}
		}
		for _, m := range want {
			if legal[m] && seen[m] == 0 {
				lostLegal = append(lostLegal, m)
			}
		}
		if len(notPseudo)+len(dup)+len(lostLegal) > 0 {
			sort.Ints(dup)
			c.disc("C08", "evasion/"+name+"/"+tag, "evasion/"+name, o, fen,
				map[string][]string{"not_pseudo_legal": uciList(notPseudo), "repeated": uciList(dup), "legal_move_omitted": uciList(lostLegal)})
		}
	}
	var got []int
	if e := guard(func() { got = intsOfMoves(*movegen.NewMoveGen().GeneratePseudoLegalMoves(p, mode, true)) }); e != "" {
		c.disc("C08", "evasion-panic", "panic", o, fen, e)
	} else {
		check("batch", got)
	}
	seq, perr := drain(movegen.NewMoveGen(), p, mode, true)
	if perr != "" {
		c.disc("C08", "evasion-panic", "panic", o, fen, perr)
	} else {
		check("phased", intsOfMoves(seq))
	}
}

// ------------------------------------------------------------------------------------- C09

func bbSquares(b Bitboard) []int {
	r := []int{}
	for b != 0 {
		r = append(r, int(b.PopLsb()))
	}
	return r
}

func eqInts(a, b []int) bool {
	if len(a) != len(b) {
		return false
	}
	for i := range a {
		if a[i] != b[i] {
			return false
		}
	}
	return true
}

func (c *chessCtx) checkC09(o *Obs, fen string, pFen, pPath *position.Position) {
	c.res.count("C09.nodes", 1)
	for _, v := range []struct {
		n string
		p *position.Position
	}{{"fen", pFen}, {"path", pPath}} {
		p := v.p
		var hc bool
		if e := guard(func() { hc = p.HasCheck() }); e != "" {
			c.disc("C09", "hascheck-panic", "panic/HasCheck", o, fen, e)
		} else if hc != o.InCheck {
			c.disc("C09", "in-check/"+v.n, "in-check", o, fen, map[string]bool{"engine": hc, "spec": o.InCheck})
		}
		c.res.count("C09.incheck_compared", 1)
	}
	p := pFen
	cold, _ := position.NewPositionFen(fen) // never queried: only copied
	legal := map[int]bool{}
	for _, m := range o.Legal {
		legal[m] = true
	}
	if o.InCheck || o.Ep >= 0 {
		c.res.count("C09.nontrivial", 1)
	}
	for _, pr := range o.Pseudo {
		mv := engineMove(pr.M, pr.K)
		var g, il, wl bool
		if e := guard(func() { g = p.GivesCheck(mv) }); e != "" {
			c.disc("C09", "givescheck-panic", "panic/GivesCheck", o, fen, e)
		} else if g != pr.Gives && legal[pr.M] {
			c.disc("C09", "gives-check", fmt.Sprintf("gives-check/kind%d", pr.K), o, fen, map[string]interface{}{"move": mvUci(pr.M), "engine": g, "spec": pr.Gives})
		}
		if e := guard(func() { il = p.IsLegalMove(mv) }); e != "" {
			c.disc("C09", "islegalmove-panic", "panic/IsLegalMove", o, fen, e)
			continue
		}
		if e := guard(func() { p.DoMove(mv); wl = p.WasLegalMove(); p.UndoMove() }); e != "" {
			c.disc("C09", "waslegalmove-panic", "panic/WasLegalMove", o, fen, e)
			continue
		}
		c.res.count("C09.moves_compared", 1)
		if pr.Gives && legal[pr.M] {
			// coverage only: which piece kind moved, and was the check (also) given by a piece that did not move
			c.res.count("C09.checking_moves", 1)
			guard(func() {
				from, to := mv.From(), mv.To()
				pt := p.GetPiece(from).TypeOf()
				us := p.NextPlayer()
				p.DoMove(mv)
				att := attacks.AttacksTo(p, p.KingSquare(us.Flip()), us)
				p.UndoMove()
				if att&^to.Bb() != 0 && pr.K != 3 { // castling: the rook checks
					c.res.count("C09.revealed_checks_mover_"+pt.String(), 1)
				}
			})
		}
		if il != legal[pr.M] || wl != legal[pr.M] {
			c.disc("C09", "legality-tests", fmt.Sprintf("legality/kind%d", pr.K), o, fen,
				map[string]interface{}{"move": mvUci(pr.M), "IsLegalMove": il, "WasLegalMove": wl, "rules": legal[pr.M]})
		}
		// the same three questions asked "cold": on a copy of a position on which no other query was ever made (the
		// predicates must not depend on flags that earlier queries happen to have cached)
		if cold != nil {
			var gc, ilc, wlc bool
			e1 := guard(func() { cp := *cold; gc = cp.GivesCheck(mv) })
			e2 := guard(func() { cp := *cold; ilc = cp.IsLegalMove(mv) })
			e3 := guard(func() { cp := *cold; cp.DoMove(mv); wlc = cp.WasLegalMove() })
			if e1+e2+e3 != "" {
				c.disc("C09", "predicate-panic-cold", "panic/cold", o, fen, e1+e2+e3)
			} else {
				c.res.count("C09.cold_moves_compared", 1)
				if ilc != legal[pr.M] || wlc != legal[pr.M] {
					c.disc("C09", "legality-tests-cold", fmt.Sprintf("legality-cold/kind%d", pr.K), o, fen,
						map[string]interface{}{"move": mvUci(pr.M), "IsLegalMove": ilc, "WasLegalMove": wlc, "rules": legal[pr.M],
							"note": "asked on a fresh position from FEN, no query before"})
				}
				if gc != pr.Gives && legal[pr.M] {
					c.disc("C09", "gives-check-cold", fmt.Sprintf("gives-check-cold/kind%d", pr.K), o, fen,
						map[string]interface{}{"move": mvUci(pr.M), "engine": gc, "spec": pr.Gives})
				}
			}
		}
		// the cached check flag must survive do/undo
		var hc2 bool
		guard(func() { hc2 = p.HasCheck() })
		if hc2 != o.InCheck {
			c.disc("C09", "in-check-after-undo", "in-check-cache", o, fen, map[string]interface{}{"move": mvUci(pr.M), "engine": hc2})
		}
	}
	if len(o.AttW) == 64 {
		epIs := map[[2]int]bool{}
		for _, e := range o.EpIsAtt {
			epIs[[2]int{e[0], e[1]}] = true
		}
		epTo := map[[2]int][]int{}
		for _, e := range o.EpAttTo {
			epTo[[2]int{e[0], e[1]}] = append(epTo[[2]int{e[0], e[1]}], e[2])
		}
		for col := 0; col < 2; col++ {
			att := o.AttW
			if col == 1 {
				att = o.AttB
			}
			for s := 0; s < 64; s++ {
				want := append([]int{}, att[s]...)
				want = append(want, epTo[[2]int{s, col}]...)
				sort.Ints(want)
				wantIs := len(att[s]) > 0 || epIs[[2]int{s, col}]
				var got []int
				var gotIs bool
				c.res.count("C09.attack_queries", 2)
				epTag := ""
				if o.Ep >= 0 {
					epTag = fmt.Sprintf("/ep-file-%c", 'a'+o.Ep%8)
				}
				if e := guard(func() { got = bbSquares(attacks.AttacksTo(p, Square(s), Color(col))) }); e != "" {
					c.disc("C09", "attacksto-panic", "panic/AttacksTo"+epTag, o, fen, map[string]interface{}{"square": sqName(s), "colour": col, "panic": e})
				} else if !eqInts(got, want) {
					sig := "attackers"
					if o.Ep >= 0 && s == o.Ep {
						sig += "/on-ep-square"
						if col != o.Stm {
							sig += "/colour-that-pushed"
						}
					}
					c.disc("C09", "attackers-of-square", sig, o, fen, map[string]interface{}{"square": sqName(s), "colour": col, "engine": got, "spec": want})
				}
				if e := guard(func() { gotIs = p.IsAttacked(Square(s), Color(col)) }); e != "" {
					c.disc("C09", "isattacked-panic", "panic/IsAttacked"+epTag, o, fen, map[string]interface{}{"square": sqName(s), "colour": col, "panic": e})
				} else if gotIs != wantIs {
					c.disc("C09", "is-attacked", "is-attacked", o, fen, map[string]interface{}{"square": sqName(s), "colour": col, "engine": gotIs, "spec": wantIs})
				}
			}
		}
	}
	if len(c.res.Samples["C09"]) < 3 && o.InCheck {
		c.res.sample("C09", map[string]interface{}{"fen": fen, "in_check": true, "pseudo_moves": len(o.Pseudo)})
	}
}

// ------------------------------------------------------------------------------------- C10

func (c *chessCtx) checkC10(o *Obs, fen string, pFen, pPath *position.Position) {
	c.res.count("C10.nodes", 1)
	if o.Rep > 0 {
		c.res.count("C10.nontrivial", 1)
	}
	for n := 1; n <= 3; n++ {
		var got bool
		if e := guard(func() { got = pPath.CheckRepetitions(n) }); e != "" {
			c.disc("C10", "repetition-panic", "panic", o, fen, e)
			continue
		}
		if got != (o.Rep >= n) {
			c.disc("C10", "repetition", fmt.Sprintf("repetition/n=%d", n), o, fen, map[string]interface{}{"n": n, "engine": got, "earlier_occurrences": o.Rep})
		}
	}
	if pPath.HalfMoveClock() != o.Hmc {
		c.disc("C10", "half-move-clock", "half-move-clock", o, fen, map[string]int{"engine": pPath.HalfMoveClock(), "spec": o.Hmc})
	}
	c.material(o.Mat, fen, pFen, o)
	if len(o.Path) > 0 {
		c.material(o.Mat, fen, pPath, o) // the position as the game reached it, with everything it keeps incrementally
	}
	if len(c.res.Samples["C10"]) < 3 && o.Rep > 0 {
		c.res.sample("C10", map[string]interface{}{"root": o.Root, "path": uciList(o.Path), "earlier_occurrences": o.Rep, "hmc": o.Hmc})
	}
}

// material compares HasInsufficientMaterial with the three-valued expectation.
func (c *chessCtx) material(class string, fen string, p *position.Position, o *Obs) {
	var got bool
	if e := guard(func() { got = p.HasInsufficientMaterial() }); e != "" {
		c.disc("C10", "material-panic", "panic", o, fen, e)
		return
	}
	c.res.count("C10.material_compared", 1)
	switch class {
	case "dead":
		if !got {
			c.disc("C10", "dead-position-not-insufficient", "material/dead", o, fen, nil)
		}
	case "mating":
		if got {
			c.disc("C10", "mating-material-insufficient", "material/"+materialSig(p), o, fen, nil)
		}
	}
}

// materialSig names the non-king material, e.g. "BN-" (white bishop+knight against bare king)
func materialSig(p *position.Position) string {
	side := func(col Color) string {
		s := ""
		for _, pt := range []PieceType{Queen, Rook, Bishop, Knight, Pawn} {
			for i := 0; i < p.PiecesBb(col, pt).PopCount(); i++ {
				s += pt.Char()
			}
		}
		return s
	}
	a, b := side(White), side(Black)
	if a < b {
		a, b = b, a
	}
	return a + "-" + b
}

// ------------------------------------------------------------------------------------- C15

// swappedInPlace: the same men on the same squares with the colours exchanged (no mirroring), castling rights and en-passant
// field dropped; the side to move is chosen so that the side not to move is not in check (nil when neither choice is legal)
func swappedInPlace(fen string) *position.Position {
	f := strings.Fields(fen)
	if len(f) < 6 {
		return nil
	}
	var b strings.Builder
	for _, ch := range f[0] {
		switch {
		case ch >= 'a' && ch <= 'z':
			b.WriteRune(ch - 'a' + 'A')
		case ch >= 'A' && ch <= 'Z':
			b.WriteRune(ch - 'A' + 'a')
		default:
			b.WriteRune(ch)
		}
	}
	for _, stm := range []string{f[1], map[string]string{"w": "b", "b": "w"}[f[1]]} {
		var q *position.Position
		ok := false
		guard(func() {
			var err error
			q, err = position.NewPositionFen(b.String() + " " + stm + " - - " + f[4] + " " + f[5])
			if err == nil && q != nil {
				us := q.NextPlayer()
				ok = !q.IsAttacked(q.KingSquare(us.Flip()), us)
			}
		})
		if ok {
			return q
		}
	}
	return nil
}

func (c *chessCtx) checkC15(o *Obs, fen string, pFen, pPath *position.Position) {
	c.res.count("C15.nodes", 1)
	if len(o.Mirror) != 1 {
		return
	}
	mfen := o.Mirror[0].Fen()
	pMir, _ := position.NewPositionFen(mfen)
	if pMir == nil {
		c.disc("C15", "mirror-fen-rejected", "mirror-fen", o, fen, mfen)
		return
	}
	savedLazy, savedAdv := config.Settings.Eval.UseLazyEval, config.Settings.Eval.UseAdvancedPieceEval
	defer func() {
		config.Settings.Eval.UseLazyEval, config.Settings.Eval.UseAdvancedPieceEval = savedLazy, savedAdv
	}()
	for _, cfg := range [][2]bool{{false, false}, {true, false}, {false, true}, {true, true}} {
		config.Settings.Eval.UseLazyEval, config.Settings.Eval.UseAdvancedPieceEval = cfg[0], cfg[1]
		tag := fmt.Sprintf("lazy=%v,adv=%v", cfg[0], cfg[1])
		before := takeSnap(pPath, false)
		var vFen, vPath, vMir, vHot, vAgain int
		if e := guard(func() {
			vFen = int(evaluator.NewEvaluator().Evaluate(pFen))
			vPath = int(evaluator.NewEvaluator().Evaluate(pPath))
			vMir = int(evaluator.NewEvaluator().Evaluate(pMir))
			vHot = int(c.evHot.Evaluate(pPath))
			vAgain = int(c.evHot.Evaluate(pPath))
		}); e != "" {
			c.disc("C15", "evaluate-panic", "panic", o, fen, e)
			continue
		}
		c.res.count("C15.evaluations", 5)
		after := takeSnap(pPath, false)
		if d := snapDiff(before, after); len(d) > 0 {
			c.disc("C15", "evaluation-modifies-position/"+tag, "modifies/"+diffNames(d), o, fen, d)
		}
		if vFen != vPath {
			sig := "history"
			if pFen.GamePhase() != pPath.GamePhase() {
				sig = "history/" + c.driftSig("gamePhase")
			}
			c.disc("C15", "depends-on-history/"+tag, sig, o, fen, map[string]int{"from_fen": vFen, "after_moves": vPath})
		}
		if vHot != vPath || vAgain != vPath {
			c.disc("C15", "depends-on-evaluator-instance/"+tag, "instance", o, fen, map[string]int{"fresh": vPath, "reused": vHot, "again": vAgain})
		}
		if vMir != vFen {
			c.disc("C15", "not-colour-symmetric/"+tag, "symmetry", o, fen, map[string]interface{}{"value": vFen, "mirror_value": vMir, "mirror_fen": mfen})
		}
		// relatives on ONE evaluator: positions that share what an evaluator might cache too coarsely - the mirror image, and the
		// same men on the same squares with the colours exchanged in place - are evaluated on the reused evaluator right after
		// this position; each must get the value a fresh evaluator gives it, and this position its own value again afterwards
		rels := []struct {
			n string
			q *position.Position
		}{{"mirror", pMir}}
		if sw := swappedInPlace(fen); sw != nil {
			rels = append(rels, struct {
				n string
				q *position.Position
			}{"colours-exchanged-in-place", sw})
		}
		for _, rel := range rels {
			var vFresh, vHotRel, vBack int
			if e := guard(func() {
				vFresh = int(evaluator.NewEvaluator().Evaluate(rel.q))
				vHotRel = int(c.evHot.Evaluate(rel.q))
				vBack = int(c.evHot.Evaluate(pPath))
			}); e != "" {
				c.disc("C15", "evaluate-panic", "panic", o, fen, e)
				continue
			}
			c.res.count("C15.evaluations", 3)
			c.res.count("C15.relatives_on_one_evaluator", 1)
			if vHotRel != vFresh || vBack != vPath {
				c.disc("C15", "depends-on-earlier-evaluations/"+tag, "instance/after-"+rel.n, o, fen,
					map[string]interface{}{"relative": rel.q.StringFen(), "relative_fresh": vFresh, "relative_on_reused_evaluator": vHotRel,
						"this_position_fresh": vPath, "this_position_afterwards": vBack})
			}
		}
		var insuff bool
		guard(func() { insuff = pFen.HasInsufficientMaterial() })
		if insuff {
			c.res.count("C15.insufficient_positions", 1)
			if vFen != 0 {
				c.disc("C15", "insufficient-material-nonzero/"+tag, "insufficient-nonzero", o, fen, map[string]int{"value": vFen})
			}
		}
	}
	if len(o.Path) > 0 {
		c.res.count("C15.nontrivial", 1)
	}
	if len(c.res.Samples["C15"]) < 3 && len(o.Path) > 0 {
		c.res.sample("C15", map[string]interface{}{"fen": fen, "mirror_fen": mfen})
	}
}

// ------------------------------------------------------------------------------------- C17

func sanString(s SanComp, withCapture bool, suffix string, eqSign bool) string {
	if s.Castle == 1 {
		return "O-O" + suffix
	}
	if s.Castle == 2 {
		return "O-O-O" + suffix
	}
	var sb strings.Builder
	if s.Pt != 2 {
		sb.WriteByte(" K NBRQ"[s.Pt])
	}
	if s.Ff >= 0 {
		sb.WriteByte(byte('a' + s.Ff))
	}
	if s.Fr >= 0 {
		sb.WriteByte(byte('1' + s.Fr))
	}
	if s.Cap && withCapture {
		sb.WriteByte('x')
	}
	sb.WriteString(sqName(s.To))
	if s.Promo > 0 {
		if eqSign {
			sb.WriteByte('=')
		}
		sb.WriteByte(" NBRQ"[s.Promo])
	}
	sb.WriteString(suffix)
	return sb.String()
}

func (c *chessCtx) checkC17(o *Obs, fen string, pFen, pPath *position.Position) {
	c.res.count("C17.nodes", 1)
	mg := movegen.NewMoveGen()
	legal := map[int]bool{}
	for _, m := range o.Legal {
		legal[m] = true
	}
	kindOf := map[int]int{}
	for _, pr := range o.Pseudo {
		kindOf[pr.M] = pr.K
	}
	// UCI round trip and ValidateMove for every legal move
	for _, m := range o.Legal {
		for _, s := range []string{mvUci(m), strings.ToLower(mvUci(m))} {
			var got Move
			if e := guard(func() { got = mg.GetMoveFromUci(pFen, s) }); e != "" {
				c.disc("C17", "uci-parse-panic", "panic", o, fen, e)
				continue
			}
			c.res.count("C17.uci_roundtrips", 1)
			if got == MoveNone || specMove(got) != m {
				c.disc("C17", "uci-roundtrip", "uci-roundtrip", o, fen, map[string]string{"text": s, "parsed": got.StringUci()})
			}
		}
	}
	if len(o.Pseudo) > 0 {
		for _, pr := range o.Pseudo {
			var v bool
			guard(func() { v = mg.ValidateMove(pFen, engineMove(pr.M, pr.K)) })
			if v != legal[pr.M] {
				c.disc("C17", "validate-move", "validate-move", o, fen, map[string]interface{}{"move": mvUci(pr.M), "engine": v, "rules": legal[pr.M]})
			}
		}
	}
	// SAN: the component tuple from the specification, assembled with decoration variants
	sanOf := map[int]SanComp{}
	for _, e := range o.San {
		sanOf[e.M] = e.San
	}
	expectUnique := func(s SanComp) (int, int) { // matches by the spec's SanMatches over o.San
		n, mv := 0, -1
		for _, e := range o.San {
			x := e.San
			if s.Castle != 0 {
				if x.Castle == s.Castle {
					n++
					mv = e.M
				}
				continue
			}
			if x.Castle != 0 || x.To != s.To || x.Pt != s.Pt || x.Promo != s.Promo {
				continue
			}
			if s.Ff >= 0 && mvFrom(e.M)%8 != s.Ff {
				continue
			}
			if s.Fr >= 0 && mvFrom(e.M)/8 != s.Fr {
				continue
			}
			n++
			mv = e.M
		}
		return n, mv
	}
	for _, e := range o.San {
		if e.San.Ff >= 0 || e.San.Fr >= 0 || e.San.Promo > 0 || e.San.Castle > 0 {
			c.res.count("C17.nontrivial", 1)
		}
		for vi, text := range []string{
			sanString(e.San, true, "", true), sanString(e.San, true, "+", true), sanString(e.San, true, "#", false),
			sanString(e.San, false, "", true), sanString(e.San, false, "!?", false)} {
			var got Move
			if perr := guard(func() { got = mg.GetMoveFromSan(pFen, text) }); perr != "" {
				c.disc("C17", "san-parse-panic", "panic", o, fen, perr)
				continue
			}
			c.res.count("C17.san_roundtrips", 1)
			if got == MoveNone || specMove(got) != e.M {
				c.disc("C17", "san-roundtrip", fmt.Sprintf("san-roundtrip/variant%d", vi), o, fen,
					map[string]string{"san": text, "expected": mvUci(e.M), "parsed": got.StringUci()})
			}
		}
		// hints removed: the result must be the unique match or no move
		for _, drop := range []int{0, 1} {
			s := e.San
			if drop == 0 && s.Ff >= 0 && s.Pt != 2 {
				s.Ff = -1
			} else if drop == 1 && s.Fr >= 0 {
				s.Fr = -1
			} else {
				continue
			}
			n, mv := expectUnique(s)
			text := sanString(s, true, "", true)
			var got Move
			if perr := guard(func() { got = mg.GetMoveFromSan(pFen, text) }); perr != "" {
				c.disc("C17", "san-parse-panic", "panic", o, fen, perr)
				continue
			}
			c.res.count("C17.san_ambiguous_cases", 1)
			if n == 1 && (got == MoveNone || specMove(got) != mv) {
				c.disc("C17", "san-unique-match", "san-unique", o, fen, map[string]string{"san": text, "expected": mvUci(mv), "parsed": got.StringUci()})
			}
			if n != 1 && got != MoveNone {
				c.disc("C17", "san-ambiguous-accepted", "san-ambiguous", o, fen, map[string]interface{}{"san": text, "matches": n, "parsed": got.StringUci()})
			}
		}
	}
	// strings denoting no legal move: SAN of pseudo-legal but illegal moves, and a foreign move
	for _, pr := range o.Pseudo {
		if legal[pr.M] {
			continue
		}
		text := mvUci(pr.M)
		var got Move
		guard(func() { got = mg.GetMoveFromUci(pFen, text) })
		c.res.count("C17.negative_cases", 1)
		if got != MoveNone {
			c.disc("C17", "illegal-uci-accepted", "illegal-uci", o, fen, map[string]string{"text": text, "parsed": got.StringUci()})
		}
	}
	// near misses of legal moves: a string is accepted exactly when it is the coordinate text of a legal move
	// (promotion letter in either case); everything else denotes no move
	legalText := map[string]int{}
	for _, m := range o.Legal {
		legalText[strings.ToLower(mvUci(m))] = m
	}
	for _, m := range o.Legal {
		t := mvUci(m)
		var vars []string
		if mvPromo(m) != 0 {
			// (text after a complete move text is ignored by the engine's reader - "d7c8Nq" reads as d7c8N - and is
			// not counted as "denoting no move")
			vars = append(vars, t[:4], t[:4]+"k", t[:4]+"p")
		} else {
			for _, ch := range "NBRQnbrq" {
				vars = append(vars, t+string(ch))
			}
			vars = append(vars, t[2:4]+t[0:2], t[:3], t[:2])
		}
		for _, text := range vars {
			want, isLegal := legalText[strings.ToLower(text)]
			var got Move
			if e := guard(func() { got = mg.GetMoveFromUci(pFen, text) }); e != "" {
				c.disc("C17", "uci-parse-panic", "panic", o, fen, map[string]string{"text": text, "panic": e})
				continue
			}
			c.res.count("C17.negative_cases", 1)
			if !isLegal && got != MoveNone {
				c.disc("C17", "non-move-text-accepted", "uci-near-miss", o, fen, map[string]string{"text": text, "parsed": got.StringUci()})
			} else if isLegal && (got == MoveNone || specMove(got) != want) {
				c.disc("C17", "uci-roundtrip", "uci-roundtrip", o, fen, map[string]string{"text": text, "parsed": got.StringUci()})
			}
		}
	}
	if len(c.res.Samples["C17"]) < 3 && len(o.San) > 0 {
		e := o.San[len(o.San)/2]
		c.res.sample("C17", map[string]interface{}{"fen": fen, "move": mvUci(e.M), "san": sanString(e.San, true, "", true)})
	}
	// the same generator object after it has been USED for something else: legal moves of this position in captures-only mode,
	// of another position, of this position on its path-built twin - the readers must still answer for the position they are given
	if len(o.Legal) > 0 && (len(o.Path) == 0 || c.res.Counters["C17.nodes"]%4 == 0) {
		other := position.NewPosition()
		for step := 0; step < 3; step++ {
			guard(func() {
				switch step {
				case 0:
					mg.GenerateLegalMoves(pFen, movegen.GenNonQuiet)
				case 1:
					mg.GenerateLegalMoves(other, movegen.GenAll)
				case 2:
					mg.GeneratePseudoLegalMoves(other, movegen.GenAll, false)
					mg.HasLegalMove(other)
				}
			})
			for k, m := range o.Legal {
				if (k+step)%3 != 0 && len(o.Legal) > 6 {
					continue
				}
				var got Move
				guard(func() { got = mg.GetMoveFromUci(pFen, mvUci(m)) })
				c.res.count("C17.uci_roundtrips_used_generator", 1)
				if got == MoveNone || specMove(got) != m {
					c.disc("C17", "uci-roundtrip", "uci-roundtrip/used-generator", o, fen, map[string]string{"text": mvUci(m), "parsed": got.StringUci(), "generator_used_for": []string{"captures of the same position", "another position", "pseudo-legal moves of another position"}[step]})
				}
				guard(func() {
					switch step {
					case 0:
						mg.GenerateLegalMoves(pFen, movegen.GenNonQuiet)
					case 1:
						mg.GenerateLegalMoves(other, movegen.GenAll)
					}
				})
				if sc, ok := sanOf[m]; ok {
					text := sanString(sc, true, "", true)
					guard(func() { got = mg.GetMoveFromSan(pFen, text) })
					if got == MoveNone || specMove(got) != m {
						c.disc("C17", "san-roundtrip", "san-roundtrip/used-generator", o, fen, map[string]string{"san": text, "expected": mvUci(m), "parsed": got.StringUci()})
					}
				}
				guard(func() {
					if step == 1 {
						mg.GenerateLegalMoves(other, movegen.GenAll)
					} else {
						mg.GenerateLegalMoves(pFen, movegen.GenNonQuiet)
					}
				})
				var v bool
				guard(func() { v = mg.ValidateMove(pFen, engineMove(m, kindOf[m])) })
				if !v {
					c.disc("C17", "validate-move", "validate-move/used-generator", o, fen, map[string]interface{}{"move": mvUci(m), "engine": v, "rules": true})
				}
			}
		}
	}
}

// ------------------------------------------------------------------------------------- finish

func (c *chessCtx) finish() {
	res := c.res
	res.Extra["transposition_groups"] = len(c.identToKey)
	if c.props["C01"] && c.perftMax > 0 && c.onlyMoves {
		roots := []int{}
		for r := range c.maxLvl {
			roots = append(roots, r)
		}
		sort.Ints(roots)
		for _, r := range roots {
			fen := c.roots[r-1].Fen()
			for d := 1; d <= c.maxLvl[r] && d <= c.perftMax; d++ {
				ls := c.levels[[2]int{r, d}]
				if ls == nil {
					ls = &levelStat{}
				}
				for _, od := range []bool{false, true} {
					pf := movegen.NewPerft()
					if e := guard(func() { pf.StartPerft(fen, d, od) }); e != "" {
						c.disc("C01", "perft-panic", "panic", &Obs{Root: r}, fen, e)
						continue
					}
					res.count("C01.perft_runs", 1)
					if int64(pf.Nodes) != ls.nodes {
						c.disc("C01", fmt.Sprintf("perft-nodes/ondemand=%v", od), "perft", &Obs{Root: r}, fen,
							map[string]interface{}{"depth": d, "engine": pf.Nodes, "rules": ls.nodes})
					}
					got := [5]int64{int64(pf.CaptureCounter), int64(pf.EnpassantCounter), int64(pf.CastleCounter), int64(pf.PromotionCounter), int64(pf.CheckCounter)}
					want := [5]int64{ls.caps, ls.eps, ls.castles, ls.promos, ls.checks}
					if got != want && ls.nodes > 0 {
						c.disc("C01", fmt.Sprintf("perft-counters/ondemand=%v", od), "perft-counters", &Obs{Root: r}, fen,
							map[string]interface{}{"depth": d, "engine[cap,ep,castle,promo,check]": got, "rules": want})
					}
				}
			}
		}
	}
}
