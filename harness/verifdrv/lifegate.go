package main

// life-gate: replays behaviours of SearchLifecycleGen.tla (TLC output) in the real Search.
//
// Every hook of internal/search (build tag verif) is a gate: the goroutine that reaches it is
// parked until the replayer releases it.  A behaviour is a sequence of steps, each the step of
// one goroutine from one hook to the next; the replayer releases that goroutine and waits until
// it has parked at the hook the model names (hooks fire AFTER their statement).  The real engine
// is thereby forced through the interleaving TLC chose - including the rare ones (a start that
// arrives between a search's result and the release of its semaphore, a timer goroutine that gets
// to run only when its search is over, a stop request between the end of the search work and
// the wait loop).  Clock ticks are real waiting.
//
// What is compared after every step: the label of the hook reached (and that no other goroutine
// moved), the number of results sent so far, and what IsSearching answers when the model calls it.
// A mismatch is a DIVERGENCE (the real code is not doing what the model does): the gates are
// opened, the consequences are given time to unfold, the remaining controller calls are issued
// freely, and the verdict is left to the monitors, which state the property itself:
//   - every controller call returns (watchdog),
//   - one result per accepted start,
//   - no result of an infinite / ponder search before a stop (or ponderhit) was requested.

import (
	"bufio"
	"bytes"
	"encoding/json"
	"flag"
	"fmt"
	"io"
	"os"
	"strings"
	"sync"
	"sync/atomic"
	"time"

	"github.com/frankkopp/FrankyGo/internal/config"
	"github.com/frankkopp/FrankyGo/internal/movegen"
	"github.com/frankkopp/FrankyGo/internal/moveslice"
	"github.com/frankkopp/FrankyGo/internal/position"
	"github.com/frankkopp/FrankyGo/internal/search"
	. "github.com/frankkopp/FrankyGo/internal/types"
	"github.com/frankkopp/FrankyGo/internal/uci"
)

func init() { register("life-gate", lifeGate) }

type GateStep struct {
	L     string          `json:"l"`
	K     string          `json:"k"` // c | r | t | x
	I     int             `json:"i"`
	X     json.RawMessage `json:"x"`
	Srch  bool            `json:"srch"`
	Nres  int             `json:"nres"`
	Spawn int             `json:"spawn"`
}

type GateBehaviour struct {
	ID    int        `json:"id"`
	Steps []GateStep `json:"steps"`
	// the searches whose work ends by itself run on positions WITHOUT legal moves (mate, stalemate) instead of with a depth limit
	Terminal bool `json:"terminal"`
}

type GateDivergence struct {
	Step     int    `json:"step"` // 1-based index into Steps
	Label    string `json:"label"`
	Expected string `json:"expected"`
	Got      string `json:"got"`
}

type GateEarly struct {
	Search int    `json:"search"`
	Mode   string `json:"mode"`
	Note   string `json:"note"`
}

type GateResult struct {
	ID        int             `json:"id"`
	Steps     int             `json:"steps"`
	Matched   int             `json:"matched"` // steps replayed in lock step with the model
	Diverged  *GateDivergence `json:"diverged"`
	Hang      string          `json:"hang"`
	Panic     string          `json:"panic"`
	Accepted  int             `json:"accepted"`
	Results   int             `json:"results"`
	Early     []GateEarly     `json:"early"`
	Stuck     []GateEarly     `json:"stuck"`
	OptionLost []string       `json:"option_lost"`
	ValidStartRejected []string `json:"valid_start_rejected"`
	Log       []string        `json:"log"`
	TickMs    int             `json:"tick_ms"`
	WallMs    int64           `json:"wall_ms"`
	Switches  int             `json:"switches"` // context switches between goroutines forced by the replay
}

type gateArrival struct {
	id    int
	point string
}

// gate parks goroutines at hooks
type gate struct {
	mu      sync.Mutex
	open    bool                  // free mode: nobody is parked any more
	parked  map[int]chan struct{} // goroutine id -> channel it waits on
	arrive  chan gateArrival
	log     []string
	t0      time.Time
	results int64
	// bookkeeping for the monitors (all modes)
	born     []int                 // search goroutines in the order of their birth = order of the StartSearch calls
	tryOk    map[int]time.Duration // search goroutine -> it owns the search (accepted start)
	endSet   map[int]time.Duration // search goroutine -> it has decided to end and stored its result
	accepted int
	lastInfo string // last info string sent by the engine (ClearHash / ResizeCache say whether they were refused)
	readyoks int
	killerShown string // value of UseKiller in the last configuration print-out (uci front)
	killerWant  bool
}

func (g *gate) note(f string, a ...interface{}) {
	g.mu.Lock()
	if len(g.log) < 400 {
		g.log = append(g.log, fmt.Sprintf("%6.1fms ", float64(time.Since(g.t0).Microseconds())/1000)+fmt.Sprintf(f, a...))
	}
	g.mu.Unlock()
}

// pass-through hooks: reported but never parked (no model step ends there)
func gatePass(point string) bool {
	return point == "c.stop.done" || point == "c.ponderhit"
}

func (g *gate) hook(point string, id int) {
	g.mu.Lock()
	switch point {
	case "r.born":
		g.born = append(g.born, id)
	case "r.try.ok":
		g.tryOk[id] = time.Since(g.t0)
		g.accepted++
	case "r.end.set":
		g.endSet[id] = time.Since(g.t0)
	}
	if g.open {
		g.mu.Unlock()
		if point != "t.poll" && point != "r.wait" {
			g.note("free  %d:%s", id, point)
		}
		return
	}
	if gatePass(point) {
		g.mu.Unlock()
		g.note("pass  %d:%s", id, point)
		return
	}
	ch := make(chan struct{})
	g.parked[id] = ch
	g.mu.Unlock()
	g.arrive <- gateArrival{id, point}
	<-ch
}

func (g *gate) release(id int) bool {
	g.mu.Lock()
	ch, ok := g.parked[id]
	if ok {
		delete(g.parked, id)
	}
	g.mu.Unlock()
	if ok {
		close(ch)
	}
	return ok
}

func (g *gate) openAll() {
	g.mu.Lock()
	g.open = true
	chs := g.parked
	g.parked = map[int]chan struct{}{}
	g.mu.Unlock()
	for _, ch := range chs {
		close(ch)
	}
	// arrivals still in flight are dropped by the drain loop of the replayer
}

type gateCapture struct{ g *gate }

func (c *gateCapture) SendReadyOk() {
	c.g.mu.Lock()
	c.g.readyoks++
	c.g.mu.Unlock()
}
func (c *gateCapture) SendInfoString(m string) {
	c.g.mu.Lock()
	c.g.lastInfo = m
	c.g.mu.Unlock()
}
func (c *gateCapture) SendIterationEndInfo(int, int, Value, uint64, uint64, time.Duration, moveslice.MoveSlice) {
}
func (c *gateCapture) SendAspirationResearchInfo(int, int, Value, string, uint64, uint64, time.Duration, moveslice.MoveSlice) {
}
func (c *gateCapture) SendCurrentRootMove(Move, int)                                {}
func (c *gateCapture) SendSearchUpdate(int, int, uint64, uint64, time.Duration, int) {}
func (c *gateCapture) SendCurrentLine(moveslice.MoveSlice)                           {}
func (c *gateCapture) SendResult(best Move, ponder Move) {
	n := atomic.AddInt64(&c.g.results, 1)
	c.g.note("RESULT #%d %s", n, best.StringUci())
}

// positions without legal moves: mated, stalemated
var gateTerminalFens = []string{
	"rnb1kbnr/pppp1ppp/8/4p3/6Pq/5P2/PPPPP2P/RNBQKBNR w KQkq - 1 3",
	"7k/5Q2/6K1/8/8/8/8/8 b - - 0 1",
}

func (r *gateRun) fen(i int) string {
	if r.terminal && r.selfend[i] {
		return gateTerminalFens[(i-1)%len(gateTerminalFens)]
	}
	return gateFens[(i-1)%len(gateFens)]
}

var gateFens = []string{
	"r1bqkb1r/pppp1ppp/2n2n2/4p3/2B1P3/5N2/PPPP1PPP/RNBQK2R w KQkq - 4 4",
	"r1bqk2r/pppp1ppp/2n2n2/2b1p3/2B1P3/3P1N2/PPP2PPP/RNBQK2R b KQkq - 0 5",
	"r2q1rk1/ppp2ppp/2npbn2/2b1p3/2B1P3/2NP1N2/PPP2PPP/R1BQ1RK1 w - - 4 8",
}

func lifeGate(args []string) error {
	fs := flag.NewFlagSet("life-gate", flag.ContinueOnError)
	inF := fs.String("scripts", "", "ndjson behaviours")
	outF := fs.String("out", "", "ndjson results")
	_ = fs.Int64("seed", 1, "unused")
	wd := fs.Int("watchdog", 8000, "watchdog per controller call in ms")
	tick := fs.Int("tick", 50, "one model clock tick in ms (time limit = 2 ticks - 10 ms)")
	front := fs.String("front", "api", "api: the controller calls the Search directly; uci: it writes command lines to a real UciHandler.Loop")
	if err := fs.Parse(args); err != nil {
		return err
	}
	data, err := os.ReadFile(*inF)
	if err != nil {
		return err
	}
	of, err := os.OpenFile(*outF, os.O_CREATE|os.O_WRONLY|os.O_APPEND, 0o644)
	if err != nil {
		return err
	}
	defer of.Close()
	dec := json.NewDecoder(bytes.NewReader(data))
	for dec.More() {
		var b GateBehaviour
		if err := dec.Decode(&b); err != nil {
			return err
		}
		res := runGateBehaviour(&b, time.Duration(*wd)*time.Millisecond, *tick, *front == "uci")
		j, _ := json.Marshal(res)
		of.Write(append(j, '\n'))
		of.Sync()
		if res.Hang != "" {
			os.Exit(3) // a blocked call cannot be cancelled: the process is abandoned
		}
	}
	return nil
}

// replayer state for one behaviour
type gateRun struct {
	g        *gate
	s        *search.Search // the search under test (api front), or a second one used only to ask the budget function (uci front)
	uciW     io.Writer      // uci front: the handler's input
	res      *GateResult
	watchdog time.Duration
	tick     time.Duration
	queue    map[int][]string // arrivals not yet consumed, per goroutine id
	rid      map[int]int      // model search id -> goroutine id
	tid      map[int]int      // model timer id -> goroutine id
	known    map[int]bool
	mode     map[int]string // model search id -> mode
	selfend  map[int]bool
	terminal bool
	pending  string         // controller call announced but not launched: "start" | "wait" | ""
	pendI    int
	done     chan string    // return of the controller call in flight
	inflight bool
	inflightName string
	// monitors
	callModes []string        // mode of the k-th StartSearch call
	callAt    []time.Duration // when it was issued
	requestAt []gateReq
	lastProc  string
}

type gateReq struct {
	at   time.Duration
	kind string // stop | ponderhit
}

const gateStepTimeout = 1500 * time.Millisecond

func (r *gateRun) pump(d time.Duration) bool {
	select {
	case a := <-r.g.arrive:
		r.queue[a.id] = append(r.queue[a.id], a.point)
		r.g.note("park  %d:%s", a.id, a.point)
		return true
	case <-time.After(d):
		return false
	}
}

// expect waits until goroutine id has parked at a hook and returns its label
func (r *gateRun) expect(id int, timeout time.Duration) (string, bool) {
	deadline := time.Now().Add(timeout)
	for {
		if q := r.queue[id]; len(q) > 0 {
			r.queue[id] = q[1:]
			return q[0], true
		}
		left := time.Until(deadline)
		if left <= 0 {
			return "", false
		}
		r.pump(left)
	}
}

// expectBirth waits for a goroutine nobody knows yet to park at the given birth hook
func (r *gateRun) expectBirth(point string, timeout time.Duration) (int, bool) {
	deadline := time.Now().Add(timeout)
	for {
		for id, q := range r.queue {
			if !r.known[id] && len(q) > 0 && q[0] == point {
				r.queue[id] = q[1:]
				r.known[id] = true
				return id, true
			}
		}
		left := time.Until(deadline)
		if left <= 0 {
			return 0, false
		}
		r.pump(left)
	}
}

// quiet: nothing may arrive from id (or from an unknown goroutine) for a short while
func (r *gateRun) quiet(id int, d time.Duration) (string, bool) {
	deadline := time.Now().Add(d)
	for {
		if q := r.queue[id]; len(q) > 0 {
			return q[0], false
		}
		left := time.Until(deadline)
		if left <= 0 {
			return "", true
		}
		r.pump(left)
	}
}

func (r *gateRun) launch(name string, f func()) {
	if name == "StartSearch" {
		// monitor: a start request issued when every earlier accepted search has handed over its result (the user interface
		// has its bestmove: the next go is protocol-valid) must be accepted - the search may still be cleaning up, it is not
		// "running" any more. Both numbers can only grow by steps this goroutine takes or has seen.
		r.g.mu.Lock()
		accB := r.g.accepted
		r.g.mu.Unlock()
		resB := int(atomic.LoadInt64(&r.g.results))
		inner, nth := f, len(r.callModes)
		f = func() {
			inner()
			r.g.mu.Lock()
			accA := r.g.accepted
			r.g.mu.Unlock()
			if resB == accB && accA != accB+1 {
				r.g.mu.Lock()
				r.res.ValidStartRejected = append(r.res.ValidStartRejected, fmt.Sprintf("start request %d was issued after all %d earlier searches had delivered their results and was not accepted", nth, accB))
				r.g.mu.Unlock()
			}
		}
	}
	r.done = make(chan string, 1)
	r.inflight = true
	r.inflightName = name
	d := r.done
	r.g.note("call  %s", name)
	go func() { d <- guard(f) }()
}

// finish the controller call in flight: it must return
func (r *gateRun) awaitReturn(name string) bool {
	if !r.inflight {
		return true
	}
	deadline := time.Now().Add(r.watchdog)
	for {
		select {
		case e := <-r.done:
			r.inflight = false
			if e != "" {
				r.res.Panic = name + ": " + e
			}
			r.g.note("ret   %s", name)
			return true
		case a := <-r.g.arrive:
			r.queue[a.id] = append(r.queue[a.id], a.point)
			r.g.note("park  %d:%s", a.id, a.point)
		case <-time.After(time.Until(deadline)):
			r.res.Hang = fmt.Sprintf("%s did not return within %s", name, r.watchdog)
			return false
		}
	}
}


// ---- the controller's calls, through the API or as UCI command lines -----------------------------------------------------

// uciSend writes command lines to the handler and then a line the handler does not know: a pipe write returns when the
// reader has taken the bytes, and the handler reads its next line only when the previous command has returned - so the
// function returns exactly when the command has been processed, as an API call does
func (r *gateRun) uciSend(lines ...string) {
	for _, l := range lines {
		io.WriteString(r.uciW, l+"\n")
	}
	io.WriteString(r.uciW, "xyzzy\n")
}

func (r *gateRun) goLine(i int) string {
	_, sl := r.limits(i)
	d := ""
	if r.selfend[i] {
		d = " depth 1"
	}
	switch r.mode[i] {
	case "depth":
		return "go depth 1"
	case "time":
		return fmt.Sprintf("go movetime %d%s", sl.MoveTime.Milliseconds(), d)
	case "inf":
		return "go infinite" + d
	default:
		return fmt.Sprintf("go ponder wtime %d btime %d movestogo 1%s", sl.WhiteTime.Milliseconds(), sl.BlackTime.Milliseconds(), d)
	}
}

func (r *gateRun) callStart(i int) func() {
	if r.uciW != nil {
		pos, goLine := "position fen "+r.fen(i), r.goLine(i)
		return func() { r.uciSend(pos, goLine) }
	}
	p, sl := r.limits(i)
	return func() { r.s.StartSearch(*p, *sl) }
}

func (r *gateRun) call(kind string, out *bool) func() {
	if r.uciW != nil {
		line := map[string]string{"stop": "stop", "newgame": "ucinewgame", "ponderhit": "ponderhit", "clearhash": "setoption name Clear Hash",
			"resize": "setoption name Hash value 8", "isready": "isready"}[kind]
		if kind == "setopt" {
			r.g.mu.Lock()
			r.g.killerWant = !r.g.killerWant
			v := r.g.killerWant
			r.g.killerShown = ""
			r.g.mu.Unlock()
			return func() { r.uciSend(fmt.Sprintf("setoption name Use_Killer value %v", v), "setoption name Print Config") }
		}
		if line == "" { // issearching / wait have no command line
			return func() {}
		}
		return func() { r.uciSend(line) }
	}
	switch kind {
	case "stop":
		return func() { r.s.StopSearch() }
	case "newgame":
		return func() { r.s.NewGame() }
	case "wait":
		return func() { r.s.WaitWhileSearching() }
	case "ponderhit":
		return func() { r.s.PonderHit() }
	case "issearching":
		return func() {
			v := r.s.IsSearching()
			if out != nil {
				*out = v
			}
		}
	case "clearhash":
		return func() { r.s.ClearHash() }
	case "resize":
		return func() { r.s.ResizeCache() }
	case "setopt":
		return func() {} // options are the protocol handler's business
	default:
		return func() { r.s.IsReady() }
	}
}

func (r *gateRun) limits(i int) (*position.Position, *search.Limits) {
	p, _ := position.NewPositionFen(r.fen(i))
	sl := search.NewSearchLimits()
	limit := 2*r.tick - 10*time.Millisecond // between one and two ticks, with room on both sides
	switch r.mode[i] {
	case "depth":
		sl.Depth = 1
	case "time":
		sl.TimeControl = true
		sl.MoveTime = limit + 20*time.Millisecond // the engine keeps 20 ms for itself
	case "inf":
		sl.Infinite = true
	case "ponder":
		sl.Ponder = true
		sl.TimeControl = true
		sl.MovesToGo = 1
		// the clock that makes the engine's own budget function answer `limit` (it plans with 80% or 90% of the clock)
		w := time.Duration(float64(limit) / 0.9)
		for n := 0; n < 20; n++ {
			sl.WhiteTime, sl.BlackTime = w, w
			got := r.s.VerifSetupTimeControl(p, sl)
			if d := limit - got; d > time.Millisecond || d < -time.Millisecond {
				w += d
			} else {
				break
			}
		}
		sl.WhiteTime, sl.BlackTime = w, w
	}
	if r.selfend[i] {
		sl.Depth = 1
	}
	return p, sl
}

func (r *gateRun) diverge(step int, st *GateStep, expected, got string) {
	if r.res.Diverged == nil {
		r.res.Diverged = &GateDivergence{Step: step, Label: st.L, Expected: expected, Got: got}
		r.g.note("DIVERGED at step %d (%s): expected %s, got %s", step, st.L, expected, got)
	}
}

// one step in lock step with the model; false = diverged
func (r *gateRun) step(n int, st *GateStep) bool {
	g := r.g
	proc := fmt.Sprintf("%s%d", st.K, st.I)
	if st.K == "c" {
		proc = "c"
	}
	if st.K != "x" {
		if r.lastProc != "" && r.lastProc != proc {
			r.res.Switches++
		}
		r.lastProc = proc
	}
	want := func(id int, label string, timeout time.Duration) bool {
		got, ok := r.expect(id, timeout)
		if !ok {
			r.diverge(n, st, label, "(nothing within "+timeout.String()+")")
			return false
		}
		if got != label {
			r.diverge(n, st, label, got)
			return false
		}
		return true
	}
	switch st.K {
	case "x": // tick
		time.Sleep(r.tick)
		return true
	case "c":
		switch st.L {
		case "call.start":
			var x []interface{}
			_ = json.Unmarshal(st.X, &x)
			r.mode[st.I] = x[0].(string)
			r.selfend[st.I] = x[1].(bool)
			r.pending, r.pendI = "start", st.I
			return true
		case "c.start.acq1":
			f := r.callStart(r.pendI)
			r.pending = ""
			r.callModes, r.callAt = append(r.callModes, r.mode[r.pendI]), append(r.callAt, time.Since(g.t0))
			r.launch("StartSearch", f)
			return want(0, "c.start.acq1", gateStepTimeout)
		case "c.start.store", "c.start.acq2":
			g.release(0)
			return want(0, st.L, gateStepTimeout)
		case "c.start.spawn":
			g.release(0)
			if !want(0, st.L, gateStepTimeout) {
				return false
			}
			id, ok := r.expectBirth("r.born", gateStepTimeout)
			if !ok {
				r.diverge(n, st, "r.born of a new search goroutine", "(nothing)")
				return false
			}
			r.rid[st.I] = id
			return true
		case "c.start.rel":
			g.release(0)
			if !want(0, st.L, gateStepTimeout) {
				return false
			}
			g.release(0)
			return r.awaitReturn("StartSearch")
		case "c.stop.set":
			var x string
			_ = json.Unmarshal(st.X, &x)
			r.requestAt = append(r.requestAt, gateReq{time.Since(g.t0), "stop"})
			if x == "newgame" {
				r.launch("NewGame", r.call("newgame", nil))
			} else {
				r.launch("StopSearch", r.call("stop", nil))
			}
			return want(0, st.L, gateStepTimeout)
		case "call.wait":
			r.pending = "wait"
			return true
		case "c.wait.acq":
			var x string
			_ = json.Unmarshal(st.X, &x)
			if x != "granted" {
				if r.pending == "wait" {
					r.pending = ""
					r.launch("WaitWhileSearching", r.call("wait", nil))
				} else {
					g.release(0)
				}
			}
			if x == "queued" {
				if got, ok := r.quiet(0, 4*time.Millisecond); !ok {
					r.diverge(n, st, "(blocked in Acquire)", got)
					return false
				}
				return true
			}
			return want(0, st.L, gateStepTimeout)
		case "c.wait.rel":
			g.release(0)
			if !want(0, st.L, gateStepTimeout) {
				return false
			}
			g.release(0)
			return r.awaitReturn("Stop/WaitWhileSearching")
		case "call.ponderhit":
			r.requestAt = append(r.requestAt, gateReq{time.Since(g.t0), "ponderhit"})
			r.launch("PonderHit", r.call("ponderhit", nil))
			if !r.awaitReturn("PonderHit") {
				return false
			}
			if st.Spawn != 0 {
				id, ok := r.expectBirth("t.born", gateStepTimeout)
				if !ok {
					r.diverge(n, st, "t.born of a new timer goroutine", "(nothing)")
					return false
				}
				r.tid[st.Spawn] = id
			}
			return true
		case "call.query":
			var x string
			_ = json.Unmarshal(st.X, &x)
			var v bool
			g.mu.Lock()
			g.lastInfo, g.readyoks = "", 0
			g.mu.Unlock()
			if r.uciW != nil && x == "issearching" {
				return true // no command line asks this
			}
			r.launch(x, r.call(x, &v))
			if !r.awaitReturn(x) {
				return false
			}
			if r.uciW != nil {
				time.Sleep(2 * time.Millisecond) // the answer travels through the output pipe
			}
			g.mu.Lock()
			info, oks := g.lastInfo, g.readyoks
			g.mu.Unlock()
			switch x {
			case "issearching":
			case "setopt":
				if r.uciW != nil {
					// property monitor: an option set at a protocol-valid moment (no started search is unanswered) takes effect
					g.mu.Lock()
					shown, wantV, acc := g.killerShown, g.killerWant, g.accepted
					g.mu.Unlock()
					if int(atomic.LoadInt64(&g.results)) == acc && shown != fmt.Sprint(wantV) {
						r.res.OptionLost = append(r.res.OptionLost, fmt.Sprintf("step %d: setoption name Use_Killer value %v, the configuration print-out shows %q (results %d = accepted starts %d)",
							n, wantV, shown, acc, acc))
					}
				}
				return true
			case "clearhash", "resize":
				v = strings.Contains(info, "while searching") // refused
			case "isready":
				if oks != 1 {
					r.diverge(n, st, "one readyok", fmt.Sprintf("%d", oks))
					return false
				}
				return true
			}
			if v != st.Srch {
				r.diverge(n, st, fmt.Sprintf("%s sees searching = %v", x, st.Srch), fmt.Sprintf("%v (%q)", v, info))
				return false
			}
			return true
		}
	case "r":
		id := r.rid[st.I]
		var x string
		_ = json.Unmarshal(st.X, &x)
		switch st.L {
		case "r.try.ok", "r.try.fail":
			if x != "granted" {
				g.release(id)
			}
			if x == "queued" {
				if got, ok := r.quiet(id, 4*time.Millisecond); !ok {
					r.diverge(n, st, "(blocked in Acquire)", got)
					return false
				}
				return true
			}
			if !want(id, st.L, gateStepTimeout) {
				return false
			}
			if st.L == "r.try.fail" {
				g.release(id) // the goroutine returns
			}
			return true
		case "r.done":
			g.release(id)
			return want(id, st.L, 4*time.Second)
		case "r.rel":
			g.release(id)
			if !want(id, st.L, gateStepTimeout) {
				return false
			}
			g.release(id) // the goroutine ends
			return true
		case "r.timer":
			g.release(id)
			if !want(id, st.L, gateStepTimeout) {
				return false
			}
			if st.Spawn != 0 {
				tid, ok := r.expectBirth("t.born", gateStepTimeout)
				if !ok {
					r.diverge(n, st, "t.born of a new timer goroutine", "(nothing)")
					return false
				}
				r.tid[st.Spawn] = tid
			}
			return true
		default: // r.reset r.tl0 r.setup r.init.rel r.wait r.end.set r.sent
			g.release(id)
			return want(id, st.L, gateStepTimeout)
		}
	case "t":
		id := r.tid[st.I]
		g.release(id)
		if !want(id, st.L, gateStepTimeout) {
			return false
		}
		if st.L == "t.exit" || st.L == "t.fire" {
			g.release(id) // the goroutine ends
		}
		return true
	}
	r.diverge(n, st, "(a step the replayer knows)", st.L)
	return false
}

func runGateBehaviour(b *GateBehaviour, watchdog time.Duration, tickMs int, uciFront bool) *GateResult {
	t0 := time.Now()
	g := &gate{parked: map[int]chan struct{}{}, arrive: make(chan gateArrival, 256), t0: t0,
		tryOk: map[int]time.Duration{}, endSet: map[int]time.Duration{}}
	search.VerifAtHook = g.hook
	search.VerifTerminalHook = nil
	config.Settings.Search.TTSize = 8
	config.Settings.Search.UseBook = false
	_ = position.NewPosition() // as the protocol loop does before it creates the search (lazily created package loggers)
	_ = movegen.NewMoveGen()
	s := search.NewSearch()
	s.SetUciHandler(&gateCapture{g})
	res := &GateResult{ID: b.ID, Steps: len(b.Steps), TickMs: tickMs}
	r := &gateRun{g: g, s: s, res: res, watchdog: watchdog, tick: time.Duration(tickMs) * time.Millisecond,
		queue: map[int][]string{}, rid: map[int]int{}, tid: map[int]int{}, known: map[int]bool{0: true},
		mode: map[int]string{}, selfend: map[int]bool{}, terminal: b.Terminal}
	var uciDone chan bool
	if uciFront {
		// the handler as main() builds it, talking to pipes; results, readyok and info strings are read off its output
		inR, inW := io.Pipe()
		outR, outW := io.Pipe()
		u := uci.NewUciHandler()
		u.InIo = bufio.NewScanner(inR)
		u.InIo.Buffer(make([]byte, 1<<20), 1<<20)
		u.OutIo = bufio.NewWriter(outW)
		uciDone = make(chan bool, 1)
		go func() { u.Loop(); uciDone <- true }()
		go func() {
			rd := bufio.NewScanner(outR)
			rd.Buffer(make([]byte, 1<<20), 1<<20)
			for rd.Scan() {
				l := rd.Text()
				switch {
				case strings.HasPrefix(l, "bestmove"):
					n := atomic.AddInt64(&g.results, 1)
					g.note("RESULT #%d %s", n, l)
				case strings.HasPrefix(l, "readyok"):
					g.mu.Lock()
					g.readyoks++
					g.mu.Unlock()
				case strings.HasPrefix(l, "info string"):
					g.mu.Lock()
					g.lastInfo = l
					if f := strings.Fields(l); len(f) >= 2 && strings.Contains(l, "UseKiller ") {
						g.killerShown = f[len(f)-1]
					}
					g.mu.Unlock()
				}
			}
		}()
		r.uciW = inW
	}
	next := 0
	for next < len(b.Steps) {
		st := &b.Steps[next]
		ok := r.step(next+1, st)
		if res.Hang != "" || res.Panic != "" {
			break
		}
		if !ok {
			break
		}
		// nobody else may have moved, and the number of results is the model's
		if st.K != "x" {
			if uciFront && st.L == "r.sent" { // the line travels through the output pipe
				for k := 0; k < 50 && int(atomic.LoadInt64(&g.results)) < st.Nres; k++ {
					time.Sleep(time.Millisecond)
				}
			}
			if n := int(atomic.LoadInt64(&g.results)); n != st.Nres {
				r.diverge(next+1, st, fmt.Sprintf("%d results sent", st.Nres), fmt.Sprintf("%d", n))
				break
			}
		}
		next++
		res.Matched = next
	}
	// ---- free running from here: open the gates, let consequences unfold, issue the remaining controller calls
	g.openAll()
	drain := func(d time.Duration) {
		deadline := time.Now().Add(d)
		for time.Until(deadline) > 0 {
			select {
			case <-g.arrive:
			case <-time.After(time.Until(deadline)):
			}
		}
	}
	// monitor: a search with a depth limit or a move time, and a ponder search after its ponderhit, ends by itself -
	// whatever earlier searches and their timers did. The gates are open; three seconds are plenty for 90 ms.
	pending := func() []GateEarly {
		var out []GateEarly
		g.mu.Lock()
		defer g.mu.Unlock()
		for k, id := range g.born {
			if k >= len(r.callModes) {
				break
			}
			if _, acc := g.tryOk[id]; !acc {
				continue
			}
			if _, ended := g.endSet[id]; ended {
				continue
			}
			m := r.callModes[k]
			self := m == "depth" || m == "time"
			if m == "ponder" {
				for _, q := range r.requestAt {
					if q.kind == "ponderhit" && q.at > r.callAt[k] && (k+1 >= len(r.callAt) || q.at < r.callAt[k+1]) {
						self = true
					}
				}
			}
			if self {
				out = append(out, GateEarly{Search: k + 1, Mode: m, Note: "the search did not end by itself within 3 s although its limit (depth 1 / 90 ms) was reached long ago"})
			}
		}
		return out
	}
	waitSelfEnd := func() {
		deadline := time.Now().Add(3 * time.Second)
		for len(pending()) > 0 && time.Now().Before(deadline) {
			drain(10 * time.Millisecond)
		}
		for _, p := range pending() {
			dup := false
			for _, q := range res.Stuck {
				dup = dup || q.Search == p.Search
			}
			if !dup {
				res.Stuck = append(res.Stuck, p)
			}
		}
	}
	if res.Hang == "" && res.Panic == "" && r.pending == "start" && !r.inflight {
		// a start request that the behaviour announced as its last step is issued now
		f := r.callStart(r.pendI)
		r.pending = ""
		r.callModes, r.callAt = append(r.callModes, r.mode[r.pendI]), append(r.callAt, time.Since(g.t0))
		r.launch("StartSearch", f)
		r.awaitReturn("StartSearch")
	}
	if res.Hang == "" && res.Panic == "" {
		if res.Diverged != nil {
			drain(time.Duration(4*tickMs) * time.Millisecond)
			if !r.inflight {
				waitSelfEnd() // before any later stop request can hide it
			}
		}
		if r.inflight {
			if r.inflightName == "WaitWhileSearching" {
				// waiting for an infinite / ponder search blocks until somebody stops it - which the single
				// controller thread cannot do any more: the replayer does it from the side
				r.requestAt = append(r.requestAt, gateReq{time.Since(g.t0), "stop"})
				side := make(chan string, 1)
				go func() { side <- guard(r.call("stop", nil)) }()
				defer func() {
					select {
					case <-side:
					case <-time.After(r.watchdog):
						if res.Hang == "" {
							res.Hang = "StopSearch (issued from the side while the controller waits) did not return"
						}
					}
				}()
			}
			r.awaitReturn(r.inflightName + " (in flight when the behaviour ended)")
		}
		for i := next; res.Hang == "" && res.Panic == "" && res.Diverged != nil && i < len(b.Steps); i++ {
			st := &b.Steps[i]
			switch st.L {
			case "call.start":
				var x []interface{}
				_ = json.Unmarshal(st.X, &x)
				r.mode[st.I] = x[0].(string)
				r.selfend[st.I] = x[1].(bool)
				f := r.callStart(st.I)
				r.callModes, r.callAt = append(r.callModes, r.mode[st.I]), append(r.callAt, time.Since(g.t0))
				r.launch("StartSearch", f)
				r.awaitReturn("StartSearch")
			case "c.stop.set":
				var x string
				_ = json.Unmarshal(st.X, &x)
				r.requestAt = append(r.requestAt, gateReq{time.Since(g.t0), "stop"})
				if x == "newgame" {
					r.launch("NewGame", r.call("newgame", nil))
				} else {
					r.launch("StopSearch", r.call("stop", nil))
				}
				r.awaitReturn("StopSearch")
			case "call.ponderhit":
				r.requestAt = append(r.requestAt, gateReq{time.Since(g.t0), "ponderhit"})
				r.launch("PonderHit", r.call("ponderhit", nil))
				r.awaitReturn("PonderHit")
			case "call.query":
				var x string
				_ = json.Unmarshal(st.X, &x)
				r.launch(x, r.call(x, nil))
				r.awaitReturn(x)
			case "tick":
				drain(time.Duration(tickMs) * time.Millisecond)
			}
		}
	}
	if res.Hang == "" && res.Panic == "" {
		waitSelfEnd()
		// whatever is still running is stopped now - a request like any other
		r.requestAt = append(r.requestAt, gateReq{time.Since(g.t0), "stop"})
		r.launch("final StopSearch", r.call("stop", nil))
		r.awaitReturn("final StopSearch")
		drain(15 * time.Millisecond)
		// monitor: an infinite / ponder search decides to end only after a stop (or, pondering, a ponderhit) was
		// requested after its own start call.  Requests are stamped BEFORE they are issued, the decision AFTER it was made.
		g.mu.Lock()
		for k, id := range g.born {
			if k >= len(r.callModes) {
				break
			}
			m := r.callModes[k]
			end, ended := g.endSet[id]
			if (m != "inf" && m != "ponder") || !ended {
				continue
			}
			asked := false
			for _, q := range r.requestAt {
				if q.at > r.callAt[k] && q.at < end && (q.kind == "stop" || m == "ponder") {
					asked = true
				}
			}
			if !asked {
				res.Early = append(res.Early, GateEarly{Search: k + 1, Mode: m, Note: "the search ended and answered although neither stop nor ponderhit had been requested since its start"})
			}
		}
		g.mu.Unlock()
	}
	if uciFront && res.Hang == "" {
		drain(10 * time.Millisecond)
		go io.WriteString(r.uciW, "quit\n")
		select {
		case <-uciDone:
		case <-time.After(3 * time.Second):
			res.Hang = "the protocol loop did not end after quit"
		}
	}
	res.Results = int(atomic.LoadInt64(&g.results))
	g.mu.Lock()
	res.Accepted = g.accepted
	res.Log = append([]string{}, g.log...)
	g.mu.Unlock()
	res.WallMs = time.Since(t0).Milliseconds()
	return res
}
