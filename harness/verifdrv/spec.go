package main

// Exchange formats between TLC and the driver: observation records of ChessGame.tla, root
// positions, and purely syntactic conversions (FEN rendering, move encoding). No chess rule is
// implemented here: every expectation comes from the TLC output.

import (
	"bufio"
	"compress/gzip"
	"encoding/json"
	"fmt"
	"io"
	"os"
	"strconv"
	"strings"

	. "github.com/frankkopp/FrankyGo/internal/types"
)

// SpecPos mirrors the position record of ChessRules.tla.
type SpecPos struct {
	Board []int    `json:"board"` // 64 piece codes, a1 first
	Stm   int      `json:"stm"`
	Cr    []string `json:"cr"`
	Ep    int      `json:"ep"`
	Hmc   int      `json:"hmc"`
	Fmn   int      `json:"fmn"`
}

type PseudoRec struct {
	M     int  `json:"m"`
	K     int  `json:"k"`
	Gives bool `json:"gives"`
	Nq0   bool `json:"nq0"`
	Nq1   bool `json:"nq1"`
	C0    int  `json:"c0"` // generation class (GenClass of ChessRules.tla), promotions-as-non-quiet off / on
	C1    int  `json:"c1"`
	Cap   bool `json:"cap"`
}

type SanComp struct {
	Pt     int  `json:"pt"`
	Ff     int  `json:"ff"`
	Fr     int  `json:"fr"`
	To     int  `json:"to"`
	Promo  int  `json:"promo"`
	Castle int  `json:"castle"`
	Cap    bool `json:"cap"`
}

type SanEntry struct {
	M   int     `json:"m"`
	San SanComp `json:"san"`
}

// Obs is one observation record printed by ChessGame!Obs.
type Obs struct {
	SpecPos
	Root    int         `json:"root"`
	Path    []int       `json:"path"`
	Kinds   [][2]int    `json:"kinds"`
	Depth   int         `json:"depth"`
	Legal   []int       `json:"legal"`
	InCheck bool        `json:"inCheck"`
	Rep     int         `json:"rep"`
	Mat     string      `json:"mat"`
	Pseudo  []PseudoRec `json:"pseudo"`
	AttW    [][]int     `json:"attW"`
	AttB    [][]int     `json:"attB"`
	EpIsAtt [][]int     `json:"epIsAtt"`
	EpAttTo [][]int     `json:"epAttTo"`
	San     []SanEntry  `json:"san"`
	Mirror  []SpecPos   `json:"mirror"`
	raw     string      // the record as read (kept for replay files)
}

const pieceChars = " KPNBRQ  kpnbrq"

// Fen renders a specification position as a FEN string (syntactic).
func (p *SpecPos) Fen() string {
	var sb strings.Builder
	for r := 7; r >= 0; r-- {
		e := 0
		for f := 0; f < 8; f++ {
			pc := p.Board[8*r+f]
			if pc == 0 {
				e++
				continue
			}
			if e > 0 {
				sb.WriteString(strconv.Itoa(e))
				e = 0
			}
			sb.WriteByte(pieceChars[pc])
		}
		if e > 0 {
			sb.WriteString(strconv.Itoa(e))
		}
		if r > 0 {
			sb.WriteByte('/')
		}
	}
	sb.WriteByte(' ')
	sb.WriteByte("wb"[p.Stm])
	sb.WriteByte(' ')
	cr := ""
	for _, c := range []string{"K", "Q", "k", "q"} {
		for _, x := range p.Cr {
			if x == c {
				cr += c
			}
		}
	}
	if cr == "" {
		cr = "-"
	}
	sb.WriteString(cr)
	sb.WriteByte(' ')
	sb.WriteString(sqName(p.Ep))
	sb.WriteString(fmt.Sprintf(" %d %d", p.Hmc, p.Fmn))
	return sb.String()
}

// crBits converts the rights set into the engine's CastlingRights bit order (K=1,Q=2,k=4,q=8).
func (p *SpecPos) crBits() int {
	b := 0
	for _, x := range p.Cr {
		switch x {
		case "K":
			b |= 1
		case "Q":
			b |= 2
		case "k":
			b |= 4
		case "q":
			b |= 8
		}
	}
	return b
}

// identKey is the position identity <<board, stm, cr, ep>> as a string.
func (p *SpecPos) identKey() string {
	var sb strings.Builder
	for _, pc := range p.Board {
		sb.WriteByte(byte('a' + pc))
	}
	sb.WriteByte(byte('0' + p.Stm))
	sb.WriteByte(byte('A' + p.crBits()))
	sb.WriteString(strconv.Itoa(p.Ep))
	return sb.String()
}

func sqName(s int) string {
	if s < 0 || s > 63 {
		return "-"
	}
	return string([]byte{byte('a' + s%8), byte('1' + s/8)})
}

func mvFrom(m int) int  { return m % 64 }
func mvTo(m int) int    { return (m / 64) % 64 }
func mvPromo(m int) int { return m / 4096 }

// mvUci renders a specification move in coordinate notation (engine style: upper-case promotion).
func mvUci(m int) string {
	return sqName(mvFrom(m)) + sqName(mvTo(m)) + []string{"", "N", "B", "R", "Q"}[mvPromo(m)]
}

// engineMove builds the engine's Move value for a specification move of the given kind
// (0 normal, 1 promotion, 2 en passant, 3 castling - KindOf in ChessRules.tla).
func engineMove(m int, kind int) Move {
	pt := PtNone
	if mvPromo(m) > 0 {
		pt = PieceType(mvPromo(m) + 2)
	}
	return CreateMove(Square(mvFrom(m)), Square(mvTo(m)), MoveType(kind), pt)
}

// specMove converts an engine move back into the specification's encoding.
func specMove(m Move) int {
	p := 0
	if m.MoveType() == Promotion {
		p = int(m.PromotionType()) - 2
	}
	return int(m.From()) + 64*int(m.To()) + 4096*p
}

func specMoveKind(m Move) int { return int(m.MoveType()) }

// openMaybeGz opens a file, transparently decompressing *.gz.
func openMaybeGz(path string) (io.ReadCloser, error) {
	f, err := os.Open(path)
	if err != nil {
		return nil, err
	}
	if strings.HasSuffix(path, ".gz") {
		z, err := gzip.NewReader(f)
		if err != nil {
			f.Close()
			return nil, err
		}
		return struct {
			io.Reader
			io.Closer
		}{z, f}, nil
	}
	return f, nil
}

const obsPrefix = `<<"OBS", "`
const obsSuffix = `">>`

// readObs streams the observation records out of raw TLC output files (lines of the form
// <<"OBS", "<json with TLA+ string escapes>">>) or plain ndjson files.
func readObs(paths []string, each func(o *Obs) error) error {
	for _, path := range paths {
		rc, err := openMaybeGz(path)
		if err != nil {
			return err
		}
		br := bufio.NewReaderSize(rc, 1<<20)
		for {
			line, err := br.ReadString('\n')
			if len(line) > 0 {
				line = strings.TrimRight(line, "\r\n")
				var js string
				switch {
				case strings.HasPrefix(line, obsPrefix) && strings.HasSuffix(line, obsSuffix):
					q := line[len(obsPrefix)-1 : len(line)-len(obsSuffix)+1]
					s, uerr := strconv.Unquote(q)
					if uerr != nil {
						rc.Close()
						return fmt.Errorf("%s: cannot unquote OBS line: %v", path, uerr)
					}
					js = s
				case strings.HasPrefix(line, "{"):
					js = line
				}
				if js != "" {
					var o Obs
					if jerr := json.Unmarshal([]byte(js), &o); jerr != nil {
						rc.Close()
						return fmt.Errorf("%s: bad OBS json: %v", path, jerr)
					}
					o.raw = js
					if eerr := each(&o); eerr != nil {
						rc.Close()
						return eerr
					}
				}
			}
			if err == io.EOF {
				break
			}
			if err != nil {
				rc.Close()
				return err
			}
		}
		rc.Close()
	}
	return nil
}

// readRoots reads the ndjson root file that was also given to TLC.
func readRoots(path string) ([]SpecPos, error) {
	f, err := os.Open(path)
	if err != nil {
		return nil, err
	}
	defer f.Close()
	var roots []SpecPos
	sc := bufio.NewScanner(f)
	sc.Buffer(make([]byte, 1<<20), 1<<20)
	for sc.Scan() {
		t := strings.TrimSpace(sc.Text())
		if t == "" {
			continue
		}
		var p SpecPos
		if err := json.Unmarshal([]byte(t), &p); err != nil {
			return nil, err
		}
		roots = append(roots, p)
	}
	return roots, sc.Err()
}
