package main

// book-run: builds the opening book from a file with the real openingbook package (optionally
// several initialisations in a row, with or without the cache file) and dumps it.
// fen-keys: the engine's hash key for each FEN of a list (the specification's position identities
// are mapped to book keys through it; property C04 makes that mapping trustworthy).
// Properties C19 and C20.

import (
	"bufio"
	"encoding/gob"
	"encoding/json"
	"flag"
	"fmt"
	"os"
	"path/filepath"
	"runtime"
	"sort"
	"sync"

	"github.com/frankkopp/FrankyGo/internal/movegen"
	"github.com/frankkopp/FrankyGo/internal/openingbook"
	"github.com/frankkopp/FrankyGo/internal/position"
	. "github.com/frankkopp/FrankyGo/internal/types"
)

func init() {
	register("book-run", bookRun)
	register("fen-keys", fenKeys)
}

type bookMove struct {
	M    int    `json:"m"` // spec encoding
	Kind int    `json:"kind"`
	Next string `json:"next"` // key as decimal string
}

type bookEntryDump struct {
	Key     string     `json:"key"`
	Counter int        `json:"counter"`
	Moves   []bookMove `json:"moves"`
}

func dumpBook(b *openingbook.Book) []bookEntryDump {
	var out []bookEntryDump
	for k, e := range b.VerifBookMap() {
		d := bookEntryDump{Key: fmt.Sprint(k), Counter: e.Counter, Moves: []bookMove{}}
		if e.ZobristKey != k {
			d.Key = fmt.Sprintf("%d!=%d", k, e.ZobristKey)
		}
		for _, s := range e.Moves {
			mv := Move(s.Move)
			d.Moves = append(d.Moves, bookMove{M: specMove(mv), Kind: specMoveKind(mv), Next: fmt.Sprint(s.NextEntry)})
		}
		out = append(out, d)
	}
	sort.Slice(out, func(i, j int) bool { return out[i].Key < out[j].Key })
	return out
}

func bookRun(args []string) error {
	fs := flag.NewFlagSet("book-run", flag.ContinueOnError)
	fileF := fs.String("file", "", "book source file")
	format := fs.String("format", "Simple", "Simple | San | Pgn")
	useCache := fs.Bool("cache", false, "use the cache file")
	recreate := fs.Bool("recreate", false, "recreate the cache file")
	rounds := fs.Int("rounds", 1, "initialisations in a row (a new Book each)")
	reuse := fs.Bool("reuse", false, "one Book object for all rounds, Reset() in between")
	damage := fs.String("damage-before-last", "", "file whose content replaces the cache file before the last round (the cache is damaged while the program runs)")
	procs := fs.Int("maxprocs", 0, "GOMAXPROCS (0 = default)")
	sched := fs.String("schedule", "", "json file with a forced interleaving: list of [parentKey, childKey] pairs in the order in which addToBook calls must happen")
	outF := fs.String("out", "", "dump json")
	if err := fs.Parse(args); err != nil {
		return err
	}
	if *procs > 0 {
		runtime.GOMAXPROCS(*procs)
	}
	bf, ok := openingbook.FormatFromString[*format]
	if !ok {
		return fmt.Errorf("unknown format %s", *format)
	}
	var schedule [][2]string
	if *sched != "" {
		data, err := os.ReadFile(*sched)
		if err != nil {
			return err
		}
		if err := json.Unmarshal(data, &schedule); err != nil {
			return err
		}
		// gate: an addToBook call proceeds only when its (parent, child) pair is at the head of the
		// schedule; the "added" hook (still under the book mutex) advances the schedule
		var mu sync.Mutex
		cond := sync.NewCond(&mu)
		pos := 0
		openingbook.VerifBookHook = func(point string, cur uint64, next uint64, move uint32) {
			mu.Lock()
			defer mu.Unlock()
			switch point {
			case "add":
				for pos < len(schedule) && !(schedule[pos][0] == fmt.Sprint(cur) && schedule[pos][1] == fmt.Sprint(next)) {
					cond.Wait()
				}
			case "added":
				pos++
				cond.Broadcast()
			}
		}
	}
	var last *openingbook.Book
	var errs []string
	// the engine builds its book after the protocol handler has constructed a position and a move generator on the
	// main goroutine; these constructors set up package-level loggers lazily, which the per-line goroutines of the
	// book build would otherwise race for - a race the engine itself cannot have
	_ = position.NewPosition()
	_ = movegen.NewMoveGen()
	var same *openingbook.Book
	for r := 0; r < *rounds; r++ {
		b := openingbook.NewBook()
		if *reuse { // one Book object for all rounds, Reset() in between (as a long-running program re-reading its book does)
			if same == nil {
				same = b
			} else {
				same.Reset()
			}
			b = same
		}
		if *damage != "" && r == *rounds-1 && r > 0 {
			if data, derr := os.ReadFile(*damage); derr == nil {
				os.WriteFile(*fileF+".cache", data, 0o644)
			}
		}
		err := b.Initialize(filepath.Dir(*fileF), filepath.Base(*fileF), bf, *useCache, *recreate)
		if err != nil {
			errs = append(errs, err.Error())
		}
		last = b
	}
	out := map[string]interface{}{"entries": dumpBook(last), "root": fmt.Sprint(last.VerifRootKey()), "errors": errs, "n": last.NumberOfEntries()}
	b, _ := json.Marshal(out)
	return os.WriteFile(*outF, b, 0o644)
}

func fenKeys(args []string) error {
	fs := flag.NewFlagSet("fen-keys", flag.ContinueOnError)
	inF := fs.String("in", "", "file with one FEN per line")
	outF := fs.String("out", "", "json list of keys (decimal strings)")
	if err := fs.Parse(args); err != nil {
		return err
	}
	f, err := os.Open(*inF)
	if err != nil {
		return err
	}
	defer f.Close()
	keys := []string{}
	sc := bufio.NewScanner(f)
	sc.Buffer(make([]byte, 1<<20), 1<<20)
	for sc.Scan() {
		p, perr := position.NewPositionFen(sc.Text())
		if perr != nil || p == nil {
			return fmt.Errorf("fen-keys: bad FEN %q", sc.Text())
		}
		keys = append(keys, fmt.Sprint(uint64(p.ZobristKey())))
	}
	b, _ := json.Marshal(keys)
	return os.WriteFile(*outF, b, 0o644)
}

// gob-probe: for every file of a directory, does the file decode as a book cache (gob of the book map, decoded into a
// FRESH map)? Used to tell "undecodable" damaged cache files (for which property C20 demands the source-built book) from
// damaged files that still decode (for which it demands nothing).
func gobProbe(args []string) error {
	fs := flag.NewFlagSet("gob-probe", flag.ContinueOnError)
	dirF := fs.String("dir", "", "directory with candidate cache files")
	outF := fs.String("out", "", "json: file name -> decodes")
	if err := fs.Parse(args); err != nil {
		return err
	}
	ents, err := os.ReadDir(*dirF)
	if err != nil {
		return err
	}
	res := map[string]bool{}
	for _, e := range ents {
		f, err := os.Open(filepath.Join(*dirF, e.Name()))
		if err != nil {
			continue
		}
		m := map[uint64]openingbook.BookEntry{}
		ok := guard(func() {
			if err := gob.NewDecoder(f).Decode(&m); err != nil {
				panic(err)
			}
		}) == ""
		f.Close()
		res[e.Name()] = ok
	}
	b, _ := json.Marshal(res)
	return os.WriteFile(*outF, b, 0o644)
}

func init() { register("gob-probe", gobProbe) }
