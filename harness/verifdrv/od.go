package main

// od-record: runs of the real phased move generator, recorded call by call with its internal
// state (hook VerifOnDemandState), for validation against MoveGenOD.tla (MoveGenODTrace.tla).
// The inputs of every run - generation class, capture flag, legality of each pseudo-legal move -
// are copied from the TLC output of ChessGame (ChessRules!GenClass), not computed here.
// Property C08.

import (
	"bufio"
	"encoding/json"
	"flag"
	"fmt"
	"os"

	"github.com/frankkopp/FrankyGo/internal/config"
	"github.com/frankkopp/FrankyGo/internal/movegen"
	"github.com/frankkopp/FrankyGo/internal/position"
	. "github.com/frankkopp/FrankyGo/internal/types"
)

func init() { register("od-record", odRecord) }

type odRun struct {
	T       string `json:"t"`
	Moves   []int  `json:"moves"`
	Cls     []int  `json:"cls"`
	Cap     []bool `json:"cap"`
	Evs     []bool `json:"evs"`
	Legal   []bool `json:"legal"`
	Pv      int    `json:"pv"`
	Mode    string `json:"mode"`
	Evasion bool   `json:"evasion"`
}

type odCall struct {
	T      string `json:"t"`
	Ret    int    `json:"ret"`
	Stage  int    `json:"stage"`
	Take   int    `json:"take"`
	N      int    `json:"n"`
	Pushed bool   `json:"pushed"`
}

type odIndex struct {
	Line    int    `json:"line"` // line of the "run" record in the trace (1-based)
	Fen     string `json:"fen"`
	Mode    string `json:"mode"`
	Pnq     bool   `json:"pnq"`
	Pv      string `json:"pv"`
	Evasion bool   `json:"evasion"`
	Killers string `json:"killers"`
	Calls   int    `json:"calls"`
}

func odRecord(args []string) error {
	fs := flag.NewFlagSet("od-record", flag.ContinueOnError)
	obsF := fs.String("obs", "", "TLC output of ChessGame with pseudo detail")
	traceF := fs.String("trace", "", "ndjson trace (output)")
	indexF := fs.String("index", "", "json index of the runs (output)")
	every := fs.Int("every", 50, "use every n-th node not in check (all nodes in check are candidates)")
	maxRuns := fs.Int("max", 2000, "maximum number of runs")
	seed := fs.Int64("seed", 1, "seed")
	outF := fs.String("out", "", "result json")
	if err := fs.Parse(args); err != nil {
		return err
	}
	res := newResult("od-record")
	tf, err := os.Create(*traceF)
	if err != nil {
		return err
	}
	defer tf.Close()
	tw := bufio.NewWriterSize(tf, 1<<20)
	defer tw.Flush()
	line := 0
	emit := func(v interface{}) {
		b, _ := json.Marshal(v)
		tw.Write(b)
		tw.WriteByte('\n')
		line++
	}
	var index []odIndex
	saved := config.Settings.Search.UsePromNonQuiet
	defer func() { config.Settings.Search.UsePromNonQuiet = saved }()
	nodeNo := 0
	runs := 0
	var prevPos *position.Position // the position of the node processed before (for runs on a reused generator)
	var prevPv Move
	modes := []struct {
		name string
		mode movegen.GenMode
		cl   map[int]bool
	}{
		{"all", movegen.GenAll, map[int]bool{1: true, 2: true, 3: true, 4: true, 5: true, 6: true, 7: true}},
		{"nonquiet", movegen.GenNonQuiet, map[int]bool{1: true, 2: true, 3: true}},
		{"quiet", movegen.GenQuiet, map[int]bool{4: true, 5: true, 6: true, 7: true}},
	}
	err = readObs([]string{*obsF}, func(o *Obs) error {
		if len(o.Pseudo) == 0 || runs >= *maxRuns {
			return nil
		}
		nodeNo++
		inCheckPick := o.InCheck && nodeNo%3 == int(*seed)%3
		if !inCheckPick && (nodeNo+int(*seed))%*every != 0 {
			return nil
		}
		fen := o.SpecPos.Fen()
		p, perr := position.NewPositionFen(fen)
		if perr != nil || p == nil {
			return nil
		}
		res.count("C08.od_nodes", 1)
		defer func() {
			prevPos = p
			prevPv = engineMove(o.Pseudo[0].M, o.Pseudo[0].K)
		}()
		legal := map[int]bool{}
		for _, m := range o.Legal {
			legal[m] = true
		}
		kindOf := map[int]int{}
		for _, pr := range o.Pseudo {
			kindOf[pr.M] = pr.K
		}
		for _, pnq := range []bool{true, false} {
			config.Settings.Search.UsePromNonQuiet = pnq
			cls := func(pr PseudoRec) int {
				if pnq {
					return pr.C1
				}
				return pr.C0
			}
			for _, md := range modes {
				// PV candidates: none, one move of every class of the mode's own set, and (captures-only
				// generation) one quiet move of the position
				pvs := []int{0}
				seen := map[int]bool{}
				seenOut := map[int]bool{}
				rot := (nodeNo + int(*seed)) % len(o.Pseudo)
				var quietPv int
				for j := range o.Pseudo {
					pr := o.Pseudo[(j+rot)%len(o.Pseudo)]
					c := cls(pr)
					if md.cl[c] && !seen[c] {
						seen[c] = true
						pvs = append(pvs, pr.M)
					}
					// ... and one move of every class OUTSIDE the mode's own set (a PV move the mode must not deliver: a
					// quiet under-promotion while only non-quiet moves are asked for, a capture in quiet mode, ...)
					if !md.cl[c] && !seenOut[c] {
						seenOut[c] = true
						pvs = append(pvs, pr.M)
					}
				}
				_ = quietPv
				type variant struct {
					pv      int
					evasion bool
				}
				var vs []variant
				for _, pv := range pvs {
					vs = append(vs, variant{pv, false})
				}
				if o.InCheck {
					vs = append(vs, variant{0, true})
					n := 0
					for j := range o.Pseudo {
						pr := o.Pseudo[(j+rot)%len(o.Pseudo)]
						if legal[pr.M] && md.cl[cls(pr)] && n < 3 {
							vs = append(vs, variant{pr.M, true})
							n++
						}
					}
				}
				for vi, v := range vs {
					if runs >= *maxRuns {
						return nil
					}
					mg := movegen.NewMoveGen()
					// every other run: the generator comes from ANOTHER position, where an iteration with a PV move was
					// abandoned after its first move (a cut-off on the hash move) - no reset in between: the generator
					// promises to start afresh when it sees a new position
					if vi%2 == 1 && prevPos != nil {
						mg.SetPvMove(prevPv)
						guard(func() { mg.GetNextMove(prevPos, movegen.GenAll, false) })
						mg.SetPvMove(MoveNone)
						res.count("C08.od_runs_on_reused_generator", 1)
					}
					killers := ""
					if vi%3 == 2 && len(o.Pseudo) >= 2 {
						k1 := o.Pseudo[rot%len(o.Pseudo)]
						k2 := o.Pseudo[(rot+1)%len(o.Pseudo)]
						mg.StoreKiller(engineMove(k1.M, k1.K))
						mg.StoreKiller(engineMove(k2.M, k2.K))
						killers = mvUci(k1.M) + " " + mvUci(k2.M)
					}
					if v.pv != 0 {
						mg.SetPvMove(engineMove(v.pv, kindOf[v.pv]))
					}
					var calls []odCall
					returned := map[int]bool{}
					perr := guard(func() {
						nones := 0
						for i := 0; i < 700 && nones < 2; i++ {
							m := mg.GetNextMove(p, md.mode, v.evasion)
							st, tk, n, pu := mg.VerifOnDemandState()
							r := 0
							if m == MoveNone {
								nones++
							} else {
								r = specMove(m)
								returned[r] = true
							}
							calls = append(calls, odCall{"call", r, st, tk, n, pu})
						}
						if nones < 2 {
							panic("phased generator did not terminate within 700 calls")
						}
					})
					if perr != "" {
						res.disc(Disc{Prop: "C08", Kind: "phased-panic", Sig: "panic/" + md.name, Fen: fen, Detail: perr})
						continue
					}
					run := odRun{T: "run", Pv: v.pv, Mode: md.name, Evasion: v.evasion}
					for _, pr := range o.Pseudo {
						run.Moves = append(run.Moves, pr.M)
						run.Cls = append(run.Cls, cls(pr))
						run.Cap = append(run.Cap, pr.Cap)
						run.Legal = append(run.Legal, legal[pr.M])
						// what the evasion flag lets through is the engine's business (it may keep illegal moves);
						// it is taken from the run itself and then checked against the model's requirements
						// (moves outside the mode's classes are never generated: nothing is known, nothing is needed)
						run.Evs = append(run.Evs, !v.evasion || returned[pr.M] || !md.cl[cls(pr)])
					}
					index = append(index, odIndex{Line: line + 1, Fen: fen, Mode: md.name, Pnq: pnq, Pv: mvUci0(v.pv), Evasion: v.evasion,
						Killers: killers, Calls: len(calls)})
					emit(run)
					for _, c := range calls {
						emit(c)
					}
					runs++
					res.count("C08.od_runs", 1)
					res.count("C08.od_calls", int64(len(calls)))
					if v.evasion {
						res.count("C08.od_evasion_runs", 1)
					}
				}
			}
		}
		return nil
	})
	if err != nil {
		return err
	}
	ib, _ := json.Marshal(index)
	if err := os.WriteFile(*indexF, ib, 0o644); err != nil {
		return err
	}
	res.count("C08.od_lines", int64(line))
	return res.write(*outF)
}

func mvUci0(m int) string {
	if m == 0 {
		return ""
	}
	return fmt.Sprint(mvUci(m))
}
