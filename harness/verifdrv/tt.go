package main

// tt-replay: steps the behaviours generated from TT.tla through a real transposition table and
// compares the projected state (every model key looked up with GetEntry, entry count, fill level)
// with the model state after every operation (property C11).
// tt-record: drives a real table with its own random histories and logs operation, arguments and
// result as ndjson for validation against the specification (TTTrace.tla).

import (
	"encoding/json"
	"flag"
	"fmt"
	"math/rand"
	"os"
	"sort"
	"strings"

	"github.com/frankkopp/FrankyGo/internal/position"
	tt "github.com/frankkopp/FrankyGo/internal/transpositiontable"
	. "github.com/frankkopp/FrankyGo/internal/types"
)

func init() {
	register("tt-replay", ttReplay)
	register("tt-record", ttRecord)
}

type ttSlot struct {
	Tag int `json:"tag"`
	Mv  int `json:"mv"`
	D   int `json:"d"`
	V   int `json:"v"`
	Ty  int `json:"ty"`
	Age int `json:"age"`
}

type ttObs struct {
	Sel   int               `json:"sel"`
	N     int               `json:"n"`
	Op    []json.RawMessage `json:"op"`
	Cap   int               `json:"cap"`
	Count int               `json:"count"`
	Slots []ttSlot          `json:"slots"`
}

// model move codes -> engine moves
var ttMoves = []Move{MoveNone, CreateMove(SqE2, SqE4, Normal, PtNone), CreateMove(SqA7, SqA8, Promotion, Queen), CreateMove(SqE1, SqG1, Castling, PtNone)}

// model key <<slot index, tag>> -> engine key; the table of 1 MB masks the lower 16 bits
// Which real slot a model slot stands for varies from behaviour to behaviour: the first slots, and slots at and around the
// boundaries of the 32 chunks in which AgeEntries walks the table in parallel (65,536 entries / 32 = 2,048), the middle, the end.
var ttSlotMaps = [][]uint64{
	{0, 1, 2, 3, 4, 5, 6, 7},
	{2048, 2047, 4096, 65535, 2049, 6144, 1, 0},
	{63488, 32768, 1, 6144, 63487, 63489, 34816, 65534},
	{2049, 34816, 65534, 63487, 2048, 4095, 4096, 4097},
}
var ttSlotMap = ttSlotMaps[0]

func ttKey(i, tag int) position.Key { return position.Key(uint64(tag)<<40 | ttSlotMap[i]) }

func opInts(op []json.RawMessage) (name string, a []int) {
	json.Unmarshal(op[0], &name)
	for _, r := range op[1:] {
		var x int
		json.Unmarshal(r, &x)
		a = append(a, x)
	}
	return
}

func ttReplay(args []string) error {
	fs := flag.NewFlagSet("tt-replay", flag.ContinueOnError)
	obsF := fs.String("obs", "", "TLC output of TT.tla (generator configuration)")
	outF := fs.String("out", "", "result json")
	tagsF := fs.Int("tags", 4, "number of tags of the model")
	if err := fs.Parse(args); err != nil {
		return err
	}
	res := newResult("tt-replay")
	chains := map[int][]*ttObs{}
	err := readTagged(strings.Split(*obsF, ","), "TTOBS", func(js string) error {
		var o ttObs
		if err := json.Unmarshal([]byte(js), &o); err != nil {
			return err
		}
		chains[o.Sel] = append(chains[o.Sel], &o)
		return nil
	})
	if err != nil {
		return err
	}
	sels := []int{}
	for s := range chains {
		sels = append(sels, s)
	}
	sort.Ints(sels)
	for _, sel := range sels {
		ch := chains[sel]
		sort.Slice(ch, func(a, b int) bool { return ch[a].N < ch[b].N })
		table := tt.NewTtTable(1)
		ttSlotMap = ttSlotMaps[sel%len(ttSlotMaps)]
		res.count("C11.behaviours", 1)
		var histOps [][]int
		var histNames []string
		for idx, o := range ch {
			if o.N != idx+1 {
				return fmt.Errorf("chain %d: missing step %d", sel, idx+1)
			}
			name, a := opInts(o.Op)
			histOps = append(histOps, a)
			histNames = append(histNames, name)
			res.count("C11.operations", 1)
			mkDisc := func(kind, sig string, detail interface{}) {
				h := []interface{}{}
				for j := range histOps {
					h = append(h, append([]interface{}{histNames[j]}, toIfaces(histOps[j])...))
				}
				res.disc(Disc{Prop: "C11", Kind: kind, Sig: sig, Detail: detail, Replay: mustJSON(map[string]interface{}{"history": h})})
			}
			var prev *ttObs
			if idx > 0 {
				prev = ch[idx-1]
			}
			perr := guard(func() {
				switch name {
				case "Put":
					if prev != nil && prev.Slots[a[0]].Tag >= 0 && prev.Slots[a[0]].Tag != a[1] {
						res.count("C11.nontrivial", 1) // store on a slot held by a different key
					}
					table.Put(ttKey(a[0], a[1]), ttMoves[a[2]], int8(a[3]), Value(a[4]), ValueType(a[5]), false)
				case "Probe":
					e := table.Probe(ttKey(a[0], a[1]))
					// expected result: the model's entry after the probe (age already decremented)
					want := o.Slots[a[0]]
					hit := o.Cap != 0 && want.Tag == a[1]
					if (e != nil) != hit {
						mkDisc("probe-hit", "probe/hit", map[string]interface{}{"engine_hit": e != nil, "model_hit": hit})
					} else if e != nil {
						if d := entryDiff(e, want, a[0]); d != "" {
							sig := "probe/" + d
							if d == "value" && want.Mv == 0 {
								sig = "lookup/value-lost-with-MoveNone"
							}
							mkDisc("probe-result", sig, map[string]interface{}{"engine": fmtEntry(e), "model": want})
						}
					}
				case "Get":
					e := table.GetEntry(ttKey(a[0], a[1]))
					want := o.Slots[a[0]]
					hit := o.Cap != 0 && want.Tag == a[1]
					if (e != nil) != hit {
						mkDisc("get-hit", "get/hit", map[string]interface{}{"engine_hit": e != nil, "model_hit": hit})
					}
				case "Age":
					table.AgeEntries()
				case "Clear":
					table.Clear()
				case "Resize":
					if a[0] == 0 {
						table.Resize(0)
					} else {
						table.Resize(1)
					}
				}
			})
			if perr != "" {
				mkDisc("panic/"+name, fmt.Sprintf("panic/%s/cap=%d", name, capBefore(prev)), perr)
				break
			}
			// projection: every model key, entry count, fill level
			perr = guard(func() {
				for i := range o.Slots {
					for tag := 1; tag <= *tagsF; tag++ {
						e := table.GetEntry(ttKey(i, tag))
						want := o.Slots[i]
						hit := o.Cap != 0 && want.Tag == tag
						res.count("C11.lookups_compared", 1)
						if (e != nil) != hit {
							mkDisc("lookup-presence", "lookup/presence", map[string]interface{}{"slot": i, "tag": tag, "engine_hit": e != nil, "model_hit": hit})
						} else if e != nil {
							if d := entryDiff(e, want, i); d != "" {
								sig := "lookup/" + d
								if d == "value" && want.Mv == 0 {
									sig = "lookup/value-lost-with-MoveNone"
								}
								mkDisc("lookup-content", sig, map[string]interface{}{"slot": i, "tag": tag, "engine": fmtEntry(e), "model": want})
							}
						}
					}
				}
				if int(table.Len()) != o.Count {
					mkDisc("entry-count", "count", map[string]int{"engine": int(table.Len()), "model": o.Count})
				}
				wantFull := 0
				if o.Cap != 0 {
					wantFull = 1000 * o.Count / 65536
				}
				if table.Hashfull() != wantFull {
					mkDisc("fill-level", "hashfull", map[string]int{"engine": table.Hashfull(), "model": wantFull})
				}
			})
			if perr != "" {
				mkDisc("panic/lookup", fmt.Sprintf("panic/lookup/cap=%d", o.Cap), perr)
				break
			}
		}
		if sel <= 2 {
			h := []string{}
			for j := range histOps {
				if j < 12 {
					h = append(h, fmt.Sprint(histNames[j], histOps[j]))
				}
			}
			res.sample("C11", map[string]interface{}{"behaviour": sel, "first_operations": h, "length": len(histOps)})
		}
	}
	// capacity law: Resize(mb) against Capacity(mb) computed by TLC
	err = readTagged(strings.Split(*obsF, ","), "TTCAP", func(js string) error {
		var m map[string]int
		if err := json.Unmarshal([]byte(js), &m); err != nil {
			return err
		}
		for k, want := range m {
			var mb int
			fmt.Sscan(k, &mb)
			if mb > 300 {
				continue
			}
			var got int
			perr := guard(func() {
				t := tt.NewTtTable(mb)
				// capacity is observable through the fill level: one entry = 1000/capacity permill;
				// fill 1/8 of the announced capacity and read the fill level
				n := want / 8
				for i := 0; i < n; i++ {
					t.Put(position.Key(uint64(i)+1), ttMoves[1], 1, 0, EXACT, false)
				}
				got = t.Hashfull()
				if int(t.Len()) != n {
					got = -int(t.Len())
				}
			})
			res.count("C11.capacity_checks", 1)
			if perr != "" || got != 125 {
				res.disc(Disc{Prop: "C11", Kind: "capacity", Sig: "capacity", Detail: map[string]interface{}{"mb": mb, "expected_entries": want, "hashfull_after_filling_one_eighth": got, "panic": perr}})
			}
		}
		return nil
	})
	if err != nil {
		return err
	}
	// every storable value with every move code, read back once (includes all mate scores)
	table := tt.NewTtTable(1)
	for mi, mv := range ttMoves {
		table.Clear()
		for v := int(ValueMin); v <= int(ValueMax); v++ {
			k := position.Key(uint64(mi+1)<<40 | uint64(v-int(ValueMin))) // 20,001 different slots
			table.Put(k, mv, 3, Value(v), BETA, false)
			e := table.GetEntry(k)
			res.count("C11.values_roundtrip", 1)
			if e == nil || e.Move.MoveOf() != mv || e.Depth != 3 || e.Type != BETA || (int(e.Move.ValueOf()) != v) {
				sig := "roundtrip"
				if mv == MoveNone && e != nil && e.Move.MoveOf() == mv && e.Depth == 3 && e.Type == BETA {
					sig = "lookup/value-lost-with-MoveNone"
				}
				res.disc(Disc{Prop: "C11", Kind: "value-roundtrip", Sig: sig, Detail: map[string]interface{}{"value": v, "move": mv.StringUci(), "read": fmtEntry(e)}})
			}
		}
	}
	return res.write(*outF)
}

func capBefore(prev *ttObs) int {
	if prev == nil {
		return 4
	}
	return prev.Cap
}

func toIfaces(a []int) []interface{} {
	r := []interface{}{}
	for _, x := range a {
		r = append(r, x)
	}
	return r
}

func fmtEntry(e *tt.TtEntry) interface{} {
	if e == nil {
		return nil
	}
	return map[string]interface{}{"key": uint64(e.Key), "move": e.Move.MoveOf().StringUci(), "value": int(e.Move.ValueOf()), "depth": e.Depth, "type": e.Type, "age": e.Age}
}

// entryDiff names the first field in which a real entry differs from the model slot.
func entryDiff(e *tt.TtEntry, want ttSlot, i int) string {
	switch {
	case e.Key != ttKey(i, want.Tag):
		return "key"
	case e.Move.MoveOf() != ttMoves[want.Mv]:
		return "move"
	case int(e.Depth) != want.D:
		return "depth"
	case int(e.Type) != want.Ty:
		return "type"
	case int(e.Move.ValueOf()) != want.V:
		return "value"
	case int(e.Age) != want.Age:
		return "age"
	}
	return ""
}

// ---------------------------------------------------------------------------------- tt-record

type ttEvent struct {
	Ev  string `json:"ev"`
	I   int    `json:"i"`
	Tag int    `json:"tag"`
	Mv  int    `json:"mv"`
	D   int    `json:"d"`
	V   int    `json:"v"`
	Ty  int    `json:"ty"`
	C   int    `json:"c"`
	Hit bool   `json:"hit"`
	// what the real table answered (lookups) and its entry count after the operation
	GMv  int `json:"gmv"`
	GD   int `json:"gd"`
	GV   int `json:"gv"`
	GTy  int `json:"gty"`
	GAge int `json:"gage"`
	Len  int `json:"len"`
}

func ttRecord(args []string) error {
	fs := flag.NewFlagSet("tt-record", flag.ContinueOnError)
	outF := fs.String("trace", "", "ndjson trace file to write")
	seed := fs.Int64("seed", 1, "seed")
	num := fs.Int("num", 20, "number of histories")
	length := fs.Int("len", 300, "operations per history")
	if err := fs.Parse(args); err != nil {
		return err
	}
	f, err := os.Create(*outF)
	if err != nil {
		return err
	}
	defer f.Close()
	enc := json.NewEncoder(f)
	rng := rand.New(rand.NewSource(*seed))
	depths := []int{-1, 0, 1, 2, 127}
	vals := []int{-10000, -9990, -9872, -1, 0, 1, 55, 9872, 9990, 10000}
	mvIdx := func(m Move) int {
		for i, x := range ttMoves {
			if x == m.MoveOf() {
				return i
			}
		}
		return -1
	}
	for h := 0; h < *num; h++ {
		table := tt.NewTtTable(1)
		enc.Encode(ttEvent{Ev: "Reset"})
		for n := 0; n < *length; n++ {
			ev := ttEvent{I: rng.Intn(4), Tag: 1 + rng.Intn(4)}
			r := rng.Intn(100)
			fill := func(e *tt.TtEntry) {
				ev.Hit = e != nil
				if e != nil {
					ev.GMv, ev.GD, ev.GV, ev.GTy, ev.GAge = mvIdx(e.Move), int(e.Depth), int(e.Move.ValueOf()), int(e.Type), int(e.Age)
				}
			}
			perr := guard(func() {
				switch {
				case r < 60:
					ev.Ev = "Put"
					ev.Mv, ev.D, ev.V, ev.Ty = 1+rng.Intn(2), depths[rng.Intn(len(depths))], vals[rng.Intn(len(vals))], 1+rng.Intn(3)
					table.Put(ttKey(ev.I, ev.Tag), ttMoves[ev.Mv], int8(ev.D), Value(ev.V), ValueType(ev.Ty), false)
				case r < 80:
					ev.Ev = "Probe"
					fill(table.Probe(ttKey(ev.I, ev.Tag)))
				case r < 90:
					ev.Ev = "Get"
					fill(table.GetEntry(ttKey(ev.I, ev.Tag)))
				case r < 96:
					ev.Ev = "Age"
					table.AgeEntries()
				case r < 99:
					ev.Ev = "Clear"
					table.Clear()
				default:
					ev.Ev = "Resize"
					ev.C = 4
					table.Resize(1)
				}
			})
			if perr != "" {
				return fmt.Errorf("tt-record: panic in %s: %s", ev.Ev, perr)
			}
			ev.Len = int(table.Len())
			enc.Encode(ev)
		}
	}
	return nil
}
