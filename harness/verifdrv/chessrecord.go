package main

// chess-record: lets the ENGINE play random games (moves drawn from its own legal move list) and
// records every ply - move, the engine's view of the successor position, its legal move list there,
// its in-check answer and its repetition answers - as ndjson for validation by ChessGameTrace.tla.

import (
	"bufio"
	"encoding/json"
	"flag"
	"math/rand"
	"os"

	"github.com/frankkopp/FrankyGo/internal/movegen"
	"github.com/frankkopp/FrankyGo/internal/position"
	. "github.com/frankkopp/FrankyGo/internal/types"
)

func init() { register("chess-record", chessRecord) }

func specPosOf(p *position.Position) SpecPos {
	sp := SpecPos{Board: make([]int, 64), Stm: int(p.NextPlayer()), Cr: []string{}, Ep: -1, Hmc: p.HalfMoveClock()}
	for s := 0; s < 64; s++ {
		sp.Board[s] = int(p.GetPiece(Square(s)))
	}
	cr := p.CastlingRights()
	for i, n := range []string{"K", "Q", "k", "q"} {
		if int(cr)&(1<<uint(i)) != 0 {
			sp.Cr = append(sp.Cr, n)
		}
	}
	if e := p.GetEnPassantSquare(); e != SqNone {
		sp.Ep = int(e)
	}
	// the full move number is observable through the FEN only
	var f [6]string
	n := 0
	cur := ""
	for _, ch := range p.StringFen() + " " {
		if ch == ' ' {
			if n < 6 {
				f[n] = cur
			}
			n++
			cur = ""
		} else {
			cur += string(ch)
		}
	}
	json.Unmarshal([]byte(f[5]), &sp.Fmn)
	return sp
}

type chessEv struct {
	Ev      string  `json:"ev"`
	M       int     `json:"m"`
	Pos     SpecPos `json:"pos"`
	Legal   []int   `json:"legal"`
	InCheck bool    `json:"inCheck"`
	Rep     []bool  `json:"rep"`
}

func chessRecord(args []string) error {
	fs := flag.NewFlagSet("chess-record", flag.ContinueOnError)
	rootsF := fs.String("roots", "", "roots ndjson")
	outF := fs.String("trace", "", "ndjson trace to write")
	games := fs.Int("games", 20, "number of games")
	plies := fs.Int("plies", 200, "maximum plies per game")
	seed := fs.Int64("seed", 1, "seed")
	if err := fs.Parse(args); err != nil {
		return err
	}
	roots, err := readRoots(*rootsF)
	if err != nil {
		return err
	}
	f, err := os.Create(*outF)
	if err != nil {
		return err
	}
	defer f.Close()
	w := bufio.NewWriter(f)
	defer w.Flush()
	enc := json.NewEncoder(w)
	rng := rand.New(rand.NewSource(*seed))
	mg := movegen.NewMoveGen() // one generator for all games: reuse is part of what is recorded
	for g := 0; g < *games; g++ {
		p, _ := position.NewPositionFen(roots[rng.Intn(len(roots))].Fen())
		if p == nil {
			continue
		}
		legalOf := func() []Move { return append([]Move{}, *mg.GenerateLegalMoves(p, movegen.GenAll)...) }
		ml := legalOf()
		enc.Encode(chessEv{Ev: "Reset", Pos: specPosOf(p), Legal: intsOfMoves(ml), Rep: []bool{false, false, false}})
		for k := 0; k < *plies && len(ml) > 0; k++ {
			// shuffling bias: prefer non-capturing piece moves now and then so that positions repeat
			m := ml[rng.Intn(len(ml))]
			if rng.Intn(3) == 0 {
				for try := 0; try < 6; try++ {
					c := ml[rng.Intn(len(ml))]
					if p.GetPiece(c.From()).TypeOf() != Pawn && p.GetPiece(c.To()) == PieceNone {
						m = c
						break
					}
				}
			}
			p.DoMove(m)
			ml = legalOf()
			enc.Encode(chessEv{Ev: "Move", M: specMove(m), Pos: specPosOf(p), Legal: intsOfMoves(ml), InCheck: p.HasCheck(),
				Rep: []bool{p.CheckRepetitions(1), p.CheckRepetitions(2), p.CheckRepetitions(3)}})
		}
	}
	return nil
}
