// verifdrv is the conformance driver of the /verif TLA+ machinery. It is compiled INSIDE the
// engine's module through `go build -overlay` (the engine packages are internal/), never copied
// into /repo. Each sub-command replays TLC-generated behaviours into the real engine, or records
// engine behaviour as ndjson traces for validation against the specifications.
package main

import (
	"encoding/json"
	"fmt"
	"os"
	"sort"

	"github.com/frankkopp/FrankyGo/internal/config"
)

type subcmd func(args []string) error

var subcmds = map[string]subcmd{}

func register(name string, f subcmd) { subcmds[name] = f }

func main() {
	// silence the engine's loggers (created lazily, they read these levels)
	config.LogLevel = 0
	config.SearchLogLevel = 0
	config.Settings.Search.UseBook = false
	if len(os.Args) < 2 {
		names := []string{}
		for n := range subcmds {
			names = append(names, n)
		}
		sort.Strings(names)
		fmt.Fprintln(os.Stderr, "usage: verifdrv <subcommand> [flags]; subcommands:", names)
		os.Exit(2)
	}
	f, ok := subcmds[os.Args[1]]
	if !ok {
		fmt.Fprintln(os.Stderr, "unknown subcommand", os.Args[1])
		os.Exit(2)
	}
	if err := f(os.Args[2:]); err != nil {
		fmt.Fprintln(os.Stderr, "verifdrv:", err)
		os.Exit(2)
	}
}

// ---------------------------------------------------------------------------------------------
// result files

// Disc is one discrepancy between the real engine and the specification's expectation (or a
// failure of the real code that needs no expectation: panic, hang).
type Disc struct {
	Prop   string      `json:"prop"`
	Kind   string      `json:"kind"`           // which comparison failed
	Sig    string      `json:"sig"`            // signature used to match known findings
	Fen    string      `json:"fen,omitempty"`  // position concerned
	Root   int         `json:"root,omitempty"` // root index (1-based) in the roots file
	Path   []int       `json:"path,omitempty"` // spec path from the root
	Detail interface{} `json:"detail,omitempty"`
	// Replay is whatever the sub-command needs to re-execute exactly this case (e.g. the
	// observation record); written into the replay file by the orchestrator.
	Replay json.RawMessage `json:"replay,omitempty"`
}

// Result is what every sub-command writes.
type Result struct {
	Cmd      string                 `json:"cmd"`
	Counters map[string]int64       `json:"counters"`
	Discs    []Disc                 `json:"discs"`
	DiscCnt  map[string]int64       `json:"disc_count"` // per prop/kind/sig, uncapped
	Samples  map[string][]Sample    `json:"samples"`
	Extra    map[string]interface{} `json:"extra,omitempty"`
	maxPer   int
}

type Sample = interface{}

func newResult(cmd string) *Result {
	return &Result{Cmd: cmd, Counters: map[string]int64{}, DiscCnt: map[string]int64{},
		Samples: map[string][]Sample{}, Extra: map[string]interface{}{}, maxPer: 25}
}

func (r *Result) count(name string, n int64) { r.Counters[name] += n }

// disc records a discrepancy; at most maxPer full records are kept per (prop, kind, sig).
func (r *Result) disc(d Disc) {
	key := d.Prop + "|" + d.Kind + "|" + d.Sig
	r.DiscCnt[key]++
	if r.DiscCnt[key] <= int64(r.maxPer) {
		r.Discs = append(r.Discs, d)
	}
}

func (r *Result) sample(prop string, s Sample) {
	if len(r.Samples[prop]) < 5 {
		r.Samples[prop] = append(r.Samples[prop], s)
	}
}

func (r *Result) write(path string) error {
	if r.Discs == nil {
		r.Discs = []Disc{}
	}
	b, err := json.MarshalIndent(r, "", " ")
	if err != nil {
		return err
	}
	return os.WriteFile(path, b, 0o644)
}

// guard runs f and converts a panic into an error string.
func guard(f func()) (perr string) {
	defer func() {
		if x := recover(); x != nil {
			perr = fmt.Sprint(x)
		}
	}()
	f()
	return ""
}
